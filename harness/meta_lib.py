"""Binding of MetaStore.tla to odfdo.meta.Meta (through a real Document)."""

from __future__ import annotations

import io
from datetime import datetime, timedelta, timezone

from .tlc import make_cfg, run_tlc

UTC = timezone.utc
TZ = timezone(timedelta(hours=5, minutes=30))
# field -> (getter, setter, concrete values for 1..NV, refused value or None)
STR = ["plain", "  two  spaces\tand tab ", "é<&>\"' 中 \U0001F600", "line\nbreak"]
FIELDS = {
    "title": ("get_title", "set_title", STR, None),
    "description": ("get_description", "set_description", STR, None),
    "subject": ("get_subject", "set_subject", STR, None),
    "keyword": ("get_keywords", "set_keywords", STR, None),
    "initial_creator": ("get_initial_creator", "set_initial_creator", STR, None),
    "creator": ("get_creator", "set_creator", STR, None),
    "generator": ("get_generator", "set_generator", STR, None),
    "printed_by": ("printed_by", "printed_by", STR, None),
    "language": ("get_language", "set_language", ["fr-FR", "en", "pt-BR", "zh-Hans-CN"], "english please"),
    "creation_date": ("get_creation_date", "set_creation_date",
                      [datetime(2024, 2, 29, 12, 30, 15), datetime(999, 1, 1, 0, 0, 0), datetime(2020, 5, 17, 23, 59, 59, 123456), datetime(2001, 9, 9, 1, 46, 40, tzinfo=TZ)], None),
    "date": ("get_modification_date", "set_modification_date",
             [datetime(2024, 2, 29, 12, 30, 15), datetime(1970, 1, 1), datetime(2020, 5, 17, 23, 59, 59, 5), datetime(9998, 12, 31, 23, 59, 59, tzinfo=UTC)], None),
    "print_date": ("print_date", "print_date",
                   [datetime(2024, 2, 29, 12, 30, 15), datetime(2, 1, 1), datetime(2020, 5, 17, 23, 59, 59), datetime(2030, 1, 1, 8, tzinfo=timezone(timedelta(hours=-11)))], None),
    "editing_duration": ("get_editing_duration", "set_editing_duration",
                         [timedelta(0), timedelta(seconds=1), timedelta(hours=25, minutes=3), timedelta(days=400, seconds=3661)], None),
    "editing_cycles": ("get_editing_cycles", "set_editing_cycles", [1, 2, 10**6, 2**40], 0),
}
NV = 4


def names():
    return sorted(FIELDS)


def read(meta, f):
    getter = FIELDS[f][0]
    attr = getattr(meta, getter)
    return attr() if callable(attr) else attr


def write(meta, f, value):
    setter = FIELDS[f][1]
    attr = getattr(type(meta), setter, None)
    if isinstance(attr, property):
        setattr(meta, setter, value)
    else:
        getattr(meta, setter)(value)


def concrete(f, v):
    return FIELDS[f][3] if v == 99 else FIELDS[f][2][v - 1]


def dump(maxops: int, fields=None, timeout=1200):
    fields = fields or names()
    refusing = {f for f in fields if FIELDS[f][3] is not None}
    c = {"Fields": set(fields), "Refusing": refusing, "NV": NV, "MaxOps": maxops, "Dump": True}
    cfg = make_cfg(spec="Spec", constants=c, properties=["ReadYourWrites", "Independent", "RefusedChangesNothing"], action_constraints=["Emit"], view="View")
    res = run_tlc("MetaStore", cfg, workers=1, timeout=timeout, heap="8g")
    return res, [p for p in res.printed if isinstance(p, dict) and "pre" in p]


def same(f, want, got) -> bool:
    if want is None or got is None:
        return want is got
    if isinstance(want, datetime):
        return isinstance(got, datetime) and got == want and got.utcoffset() == want.utcoffset()
    return type(got) is type(want) and got == want


def replay(edge, rng) -> list:
    """-> mismatches [{"kind", "field", ...}]"""
    from odfdo import Document

    doc = Document(rng.choice(["text", "spreadsheet", "presentation", "drawing"]))
    meta = doc.meta
    baseline = {f: read(meta, f) for f in edge["pre"]}
    expect = dict(baseline)
    out = []
    for f, v in edge["pre"].items():
        if v != 0:
            write(meta, f, concrete(f, v))
            expect[f] = concrete(f, v)
    o = edge["op"]
    f, v = o["f"], o["v"]
    raised = None
    try:
        write(meta, f, concrete(f, v))
    except (TypeError, ValueError) as ex:
        raised = type(ex).__name__
    if v == 99:
        if raised is None:
            out.append({"kind": "refused-value-accepted", "field": f, "value": repr(concrete(f, v))})
    else:
        if raised is not None:
            out.append({"kind": "valid-value-refused", "field": f, "value": repr(concrete(f, v)), "got": raised})
        expect[f] = concrete(f, v)
    buf = io.BytesIO()
    doc.save(buf)
    buf.seek(0)
    reloaded = Document(buf).meta
    for g in edge["post"]:
        if g == "generator" and edge["post"][g] == 0:
            continue        # save stamps the generator unless the caller set one (documented; exempt everywhere)
        for how, mm in (("live", meta), ("reloaded", reloaded)):
            try:
                got = read(mm, g)
            except Exception as ex:  # noqa: BLE001
                got = "exc:" + type(ex).__name__
            if not same(g, expect[g], got):
                out.append({"kind": ("read-your-writes" if g == f else "another-field-changed") + ":" + how, "field": g, "set": f,
                            "want": repr(expect[g])[:80], "got": repr(got)[:80]})
    return out


def run_meta_part(run, tier):
    import random

    res, edges = dump(2 if tier == "quick" else 3, None if tier == "quick" else ["title", "language", "creation_date", "date", "editing_duration", "editing_cycles", "creator", "generator"])
    run.add_tlc("MetaStore (histories of set_<field> calls, dumped)", res)
    if not res.ok:
        run.violation(f"model|MetaStore|{res.violated}", {"stdout_tail": res.stdout[-2000:]})
    rng = random.Random(run.seed)
    if len(edges) > 40000:
        edges = rng.sample(edges, 40000)
    n = 0
    for e in edges:
        n += 1
        run.klass("meta", e["op"]["f"], e["op"]["v"] == 99, sum(1 for v in e["pre"].values() if v))
        try:
            mism = replay(e, rng)
        except Exception as ex:  # noqa: BLE001
            mism = [{"kind": "exc", "field": e["op"]["f"], "got": repr(ex)[:200]}]
        for m in mism:
            run.violation(f"meta|{m['kind']}|{m['field']}", {**m, "edge": e})
    run.count(n)
    run.validated(n)
    run.notes["meta_edges_replayed"] = n
