"""Binding for Markup.tla: token lists <-> real paragraphs, operations."""

from __future__ import annotations

import json
import os
import re
import tempfile
from pathlib import Path
from xml.sax.saxutils import escape

from . import odftext
from . import tablelib as tl
from .para_lib import chars, cps
from .tlc import make_cfg, run_tlc

TX = odftext.TX
TAGS = {"span": 'text:span text:style-name="T1"', "a": 'text:a xlink:href="http://example.org/" xlink:type="simple"'}
MARK_TAGS = {TX + "bookmark", TX + "bookmark-start", TX + "bookmark-end", TX + "reference-mark", TX + "reference-mark-start", TX + "reference-mark-end",
             "{%s}annotation" % odftext.OFFICE_NS, "{%s}annotation-end" % odftext.OFFICE_NS, TX + "note"}     # an annotation is a mark: its own content is not text of the paragraph


def tokens_xml(tokens: list) -> str:
    out, stack = [], []
    for t in tokens:
        k = t["k"]
        if k == "t":
            out.append(escape(chars(t["s"])))
        elif k == "o":
            out.append(f"<{TAGS[t['tag']]}>")
            stack.append(TAGS[t["tag"]].split()[0])
        elif k == "c":
            out.append(f"</{stack.pop()}>")
        else:
            g = t["tag"]
            if g == "s":
                out.append(f'<text:s text:c="{t["n"]}"/>' if t["n"] != 1 else "<text:s/>")
            elif g == "tab":
                out.append("<text:tab/>")
            elif g == "lb":
                out.append("<text:line-break/>")
            else:
                out.append('<text:bookmark text:name="pre"/>')
    return "".join(out)


def build(tokens: list, kind: str = "Paragraph"):
    from odfdo import Element

    tag = "text:p" if kind == "Paragraph" else 'text:h text:outline-level="1"'
    return Element.from_tag(f"<{tag}>{tokens_xml(tokens)}</{tag.split()[0]}>")


def project(el) -> list:
    """Token list of a paragraph-like element (independent lxml walk)."""
    root = tl.parse_wrapped(el.serialize())[0]
    out: list = []

    def text(s):
        if s:
            if out and out[-1]["k"] == "t":
                out[-1]["s"] += cps(s)
            else:
                out.append({"k": "t", "s": cps(s)})

    def walk(e):
        text(e.text)
        for ch in e:
            if not isinstance(ch.tag, str):
                text(ch.tail)
                continue
            if ch.tag == odftext.S_TAG:
                out.append({"k": "e", "tag": "s", "n": odftext.spaces_of(ch)})
            elif ch.tag == odftext.TAB_TAG:
                out.append({"k": "e", "tag": "tab", "n": 0})
            elif ch.tag == odftext.LB_TAG:
                out.append({"k": "e", "tag": "lb", "n": 0})
            elif ch.tag in MARK_TAGS:
                out.append({"k": "e", "tag": "bm", "n": 0})
            elif ch.tag == TX + "span":
                out.append({"k": "o", "tag": "span"})
                walk(ch)
                out.append({"k": "c"})
            elif ch.tag == TX + "a":
                out.append({"k": "o", "tag": "a"})
                walk(ch)
                out.append({"k": "c"})
            else:
                out.append({"k": "e", "tag": "other", "n": 0})
            text(ch.tail)

    walk(root)
    return out


def nth_element(par, tokens: list, i: int):
    """the odfdo element matching the token at 1-based index i (same walk as project(): only spans and links are
    entered, every other element - marks, annotations with their own content, notes - is one token)"""
    want = sum(1 for t in tokens[:i] if t["k"] in ("o", "e"))
    count = 0

    def walk(e):
        nonlocal count
        for ch in e.children:
            count += 1
            if count == want:
                return ch
            if ch.tag in ("text:span", "text:a"):
                r = walk(ch)
                if r is not None:
                    return r
        return None

    el = walk(par)
    if el is None:
        raise IndexError(i)
    return el


def _fresh(stem: str, par) -> str:
    """a mark name not used yet in the paragraph (names identify start / end pairs)"""
    used = par.serialize()
    k = 0
    while f'"{stem}_{k}"' in used:
        k += 1
    return f"{stem}_{k}"


def token_index(par, tokens: list, tag: str, attr: str, name: str) -> int:
    """1-based token index of the element with this tag and name attribute (same walk as project()), 0 if absent"""
    count = 0
    found = 0

    def walk(e):
        nonlocal count, found
        for ch in e.children:
            count += 1
            if ch.tag == tag and ch.get_attribute(attr) == name and not found:
                found = count
            if ch.tag in ("text:span", "text:a"):
                walk(ch)

    walk(par)
    if not found:
        return 0
    # element number -> token number
    k = 0
    for idx, t in enumerate(tokens, 1):
        if t["k"] in ("o", "e"):
            k += 1
            if k == found:
                return idx
    return 0


def apply(par, o: dict, tokens: list, variant: int = 0):
    """Apply one Markup.tla operation through the public API.
    Returns the element to observe afterwards (the paragraph itself, or the
    copy returned by a strip operation)."""
    op = o["op"]
    if op == "wrap_offset":
        if o["tag"] == "span":
            par.set_span("T1", offset=o["off"], length=o["len"])
        else:
            par.set_link("http://example.org/", offset=o["off"], length=o["len"])
        return par
    if op == "wrap_pattern":
        rx = re.escape(chars(o["p"]))
        if o["tag"] == "span":
            par.set_span("T1", regex=rx)
        else:
            par.set_link("http://example.org/", regex=rx)
        return par
    if op == "mark_occurrence":
        rx = re.escape(chars(o["p"]))
        kw = {"before": rx} if o["before"] else {"after": rx}
        if o.get("alone") and variant % 4 == 3:
            par.insert_annotation(body=(par.inner_text or "remark"), creator="verif", position=o["nth"], **kw)
        elif o.get("last", o.get("alone")) and variant % 4 == 2 and not o["before"] and o["nth"] == 0:
            # (a note only as the very last operation: the text of a note is counted by later offsets - documented assumption)
            par.insert_note(after=rx, note_id="note1", citation="1", body="a note")
        elif variant % 2 == 0:
            par.set_bookmark("bm1", position=o["nth"], **kw)
        else:
            par.set_reference_mark("rm1", position=o["nth"], **kw)
        return par
    if op == "mark_position":
        if o.get("alone") and variant % 3 == 2:
            par.insert_annotation(body=(par.inner_text or "remark"), creator="verif", position=o["pos"])
        elif variant % 2 == 0:
            par.set_bookmark("bm2", position=o["pos"])
        else:
            par.set_reference_mark("rm2", position=o["pos"])
        return par
    if op == "mark_content":
        rx = re.escape(chars(o["p"]))
        if variant % 3 == 2 and o.get("alone"):
            par.insert_annotation(body=(par.inner_text or "remark"), creator="verif", content=rx, position=o["nth"])
        elif variant % 2 == 0:
            par.set_bookmark(_fresh("bm4", par), content=rx, position=o["nth"])
        else:
            par.set_reference_mark(_fresh("rm4", par), content=rx, position=o["nth"])
        return par
    if op == "mark_element":
        el = par if o["i"] == 0 else nth_element(par, tokens, o["i"])
        if variant % 2 == 1 and o.get("alone"):
            par.insert_annotation(body="remark", creator="verif", content=el)
        else:
            par.set_reference_mark(_fresh("rm5", par), content=el)
        return par
    if op == "mark_first_child":
        el = par if o["i"] == 0 else nth_element(par, tokens, o["i"])
        if variant % 2 == 1:
            par.insert_annotation(body="remark", creator="verif", after=el)
        elif o["i"] == 0 and variant % 4 == 0:
            par.insert_note(note_id="note2", citation="2", body="a note")          # no address: first child of the paragraph
        else:
            par.insert_note(after=el, note_id="note2", citation="2", body="a note")
        return par
    if op == "move_end":
        start = par.get_reference_mark_start(name=o["name"]) or par.get_reference_mark(name=o["name"])
        par.set_reference_mark_end(start, position=o["pos"])
        return par
    if op == "mark_range":
        pos = (o["a"], o["b"])
        # (an annotation only as the last operation on a paragraph: once it is there, the offsets of later calls
        # count its own text too - documented assumption of C09)
        if variant % 3 == 2 and o.get("alone"):
            par.insert_annotation(body=(par.inner_text or "remark"), creator="verif", position=pos)
        elif variant % 2 == 0:
            par.set_bookmark(_fresh("bm3", par), position=pos)
        else:
            par.set_reference_mark(_fresh("rm3", par), position=pos)
        return par
    if op == "strip_tags":
        # keep_heading=False: a heading's own spans are stripped too (the default protects them, as documented)
        return par.remove_spans(keep_heading=False) if o["tag"] == "span" else par.remove_links()
    if op == "strip_self":
        # the same removal called ON an inline element: its own tag stripped -> a new paragraph is returned (observed),
        # otherwise the element is changed in place (the paragraph is observed)
        el = nth_element(par, tokens, o["i"])
        name = "text:span" if o["tag"] == "span" else "text:a"
        if variant % 2 == 0 and hasattr(el, "remove_spans"):
            res = el.remove_spans(keep_heading=False) if o["tag"] == "span" else el.remove_links()
        else:
            res = el.strip_tags(strip=(name,))
        return res if el.tag == name else par
    if op == "delete":
        el = nth_element(par, tokens, o["i"])
        # ReferenceMarkStart.delete() is documented as deleting the matching end mark too: the operation record then names it
        if variant % 2 == 0 and el.tag == "text:reference-mark-start":
            j = token_index(par, tokens, "text:reference-mark-end", "text:name", el.name)
            if j:
                o["pair"] = j
            el.delete()
        elif variant % 2 == 0 and el.tag == "office:annotation":
            # Annotation.delete(): documented as deleting its annotation-end too
            j = token_index(par, tokens, "office:annotation-end", "office:name", el.get_attribute("office:name"))
            if j:
                o["pair"] = j
            el.delete()
        elif variant % 2 == 0:
            el.delete()
        else:
            el.parent.delete(el)
        return par
    raise ValueError(op)


def validate(traces: list, timeout: int = 900):
    fd, path = tempfile.mkstemp(prefix="verif_markup_", suffix=".json")
    try:
        with os.fdopen(fd, "w") as f:
            json.dump(traces, f)
        cfg = make_cfg(spec="Spec", invariants=["Report"])
        res = run_tlc("MarkupTrace", cfg, workers=1, timeout=timeout, env={"TRACE_FILE": path}, heap="8g")
    finally:
        Path(path).unlink(missing_ok=True)
    rep = None
    for p in res.printed:
        if isinstance(p, dict) and "verdicts" in p:
            rep = p
    return res, rep


def harvest_repo_text_tests(paths=("tests/test_paragraph.py", "tests/test_span.py", "tests/test_link.py", "tests/test_bookmark.py", "tests/test_reference.py",
                                  "tests/test_note.py", "tests/test_header.py", "tests/test_text.py", "tests/test_paragraph_search.py", "tests/test_toc.py",
                                  "tests/test_use_case1.py", "tests/test_use_case2.py", "tests/test_markdown.py"), timeout=900):
    """Run the repository's own text tests under the external tracing plugin; every outermost call that inserts
    markup, strips markup or appends plain text on a paragraph / heading / span becomes a one-event MarkupTrace trace."""
    import subprocess

    from .common import REPO

    fd, path = tempfile.mkstemp(prefix="verif_harvest_text_", suffix=".ndjson")
    os.close(fd)
    try:
        env = dict(os.environ, ODFDO_VERIF="1", ODFDO_VERIF_TEXT="1", ODFDO_VERIF_TRACE=path,
                   PYTHONPATH=str(Path(__file__).resolve().parent.parent) + os.pathsep + str(REPO / "src"))
        have = [p for p in paths if (REPO / p).exists()]
        r = subprocess.run(["/venv/bin/python", "-m", "pytest", "-q", "-p", "no:cacheprovider", "-p", "harness.pytest_trace_plugin", "-x", *have],
                           cwd=REPO, env=env, capture_output=True, text=True, timeout=timeout)
        events = []
        for line in Path(path).read_text().splitlines():
            try:
                ev = json.loads(line)
            except ValueError:
                continue
            if ev.get("kind") != "text" or "post" not in ev:
                continue
            op = {"op": "harvest_" + ev["class"]}
            if ev["class"] == "append":
                op["text"] = ev["text"]
            rec = {"pre": ev["pre"], "op": op, "post": ev["post"], "test": ev["test"], "method": ev["method"]}
            if "exc" in ev:
                rec["exc"] = ev["exc"]
            events.append(rec)
        return r.returncode, events, r.stdout[-400:]
    finally:
        Path(path).unlink(missing_ok=True)


def run_harvest_part(run, classes, label):
    """Harvest + validate; verdicts of the given call classes become violations of the calling check."""
    rc, events, tail = harvest_repo_text_tests()
    events = [e for e in events if e["op"]["op"].split("_", 1)[1] in classes]
    run.notes[f"harvested_{label}_calls"] = len(events)
    run.notes["harvest_pytest_rc"] = rc
    if not events:
        run.notes["harvest_note"] = "no call harvested: " + tail[-200:]
        return
    res, rep = validate([[e] for e in events])
    run.add_tlc(f"MarkupTrace validation of the calls harvested from the repository's tests ({label})", res)
    if rep is None:
        run.machinery("MarkupTrace produced no report on harvested calls:\n" + res.stdout[-2000:])
    run.count(len(events))
    run.validated(len(events))
    for e in events:
        run.klass("harvest", e["method"], "exc" if "exc" in e else "ok")
    for v in rep["verdicts"]:
        e = events[v["tid"] - 1]
        run.violation(f"{v['clause']}|harvest|{e['method']}", {"kind": v["clause"], "event": e})
