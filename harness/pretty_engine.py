"""Binding of Pretty.tla (the indentation function on labelled trees) to
XmlPart.serialize(pretty=True).

  1. TLC checks, for every document of the bounded family, that the model of
     pretty_indent keeps what a consumer reads (ReadableKept, SkeletonKept,
     TwiceReadable); with TailRule = "always" (the library's rule before the
     repair) TLC must refute ReadableKept - the sensitivity control.
  2. TLC dumps every document with its indented form.
  3. Each document is built as real ODF XML (text:section / text:p / text:span /
     text:s / text:note / office:annotation / draw:frame) inside a text
     document, many per document; content.xml is serialised plain and pretty.
       verdict     the text of every paragraph read by the independent reader
                   (harness/odftext.py: collapse) is the same in both, element
                   structure and attributes are the same, and a plain
                   serialisation taken after the pretty one is byte-identical
                   to the one taken before (printing does not edit memory)
       diagnostic  the white space the code added is exactly where and what the
                   model says (counted in the evidence, never raised)
"""

from __future__ import annotations

from lxml import etree

from . import odftext
from .tlc import make_cfg, run_tlc

NS = {
    "text": "urn:oasis:names:tc:opendocument:xmlns:text:1.0",
    "office": "urn:oasis:names:tc:opendocument:xmlns:office:1.0",
    "draw": "urn:oasis:names:tc:opendocument:xmlns:drawing:1.0",
    "xlink": "http://www.w3.org/1999/xlink",
}
TX = "{%s}" % NS["text"]
INVARIANTS = ["ReadableKept", "SkeletonKept", "TwiceReadable"]
TAB = "  "


def model_check(rich: bool, rule: str = "end-of-paragraph", timeout=1500):
    cfg = make_cfg(spec="Spec", constants={"Rich": rich, "TailRule": rule, "Dump": False}, invariants=INVARIANTS)
    return run_tlc("Pretty", cfg, workers=16, timeout=timeout)


def dump(rich: bool, timeout=1500):
    cfg = make_cfg(spec="Spec", constants={"Rich": rich, "TailRule": "end-of-paragraph", "Dump": True}, invariants=["EmitDoc"])
    res = run_tlc("Pretty", cfg, workers=1, timeout=timeout, heap="8g")
    return res, [p for p in res.printed if isinstance(p, dict) and "doc" in p]


# what stands for "a letter": an ordinary letter, or a character that some libraries take for a line end or a blank but XML
# and ODF do not (U+2028 LINE SEPARATOR, U+0085 NEXT LINE, U+00A0 NO-BREAK SPACE)
LETTERS = ("x", "x", "\u2028", "\u0085", "\u00a0")
_letter = ["x"]


def chars(s) -> str | None:
    if not s:
        return None
    return "".join(_letter[0] if c == 1 else " " for c in s)


def tag_of(node, parent_kind, index) -> str:
    k = node["k"]
    if k == "B":
        return TX + "note-body" if parent_kind == "O" else TX + "section"
    if k == "P":
        return TX + "p"
    if k == "T":
        if parent_kind == "O":
            return TX + "note-citation"
        # the inline text elements alternate between span and link (both hold text)
        return TX + "a" if (index + len(node["ch"]) + len(node["text"])) % 2 else TX + "span"
    if k == "C":
        return TX + "s"
    kids = node["ch"]
    if not kids:
        return "{%s}frame" % NS["draw"]
    if kids[0]["k"] == "T":
        return TX + "note"
    return "{%s}annotation" % NS["office"]


def build(node, parent=None, parent_kind="", index=0):
    tag = tag_of(node, parent_kind, index)
    el = etree.Element(tag, nsmap=NS) if parent is None else etree.SubElement(parent, tag)
    if tag == TX + "note":
        el.set(TX + "note-class", "footnote")
    if tag == TX + "a":
        el.set("{http://www.w3.org/1999/xlink}href", "http://example.org/")
        el.set("{http://www.w3.org/1999/xlink}type", "simple")
    el.text = chars(node["text"])
    el.tail = chars(node["tail"])
    for i, c in enumerate(node["ch"]):
        build(c, el, node["k"], i)
    return el


def decode_ws(s, base: int):
    """Text of the printed tree back to model characters (line feed + n units -> 100 + n - base)."""
    out = []
    if not s:
        return out
    i = 0
    while i < len(s):
        ch = s[i]
        if ch == "\n":
            j = i + 1
            while s.startswith(TAB, j):
                j += len(TAB)
            out.append(100 + (j - i - 1) // len(TAB) - base)
            i = j
        else:
            out.append(0 if ch == " " else 1)
            i += 1
    return out


def same_as_model(el, node, base: int, top: bool) -> bool:
    if decode_ws(el.text, base) != list(node["text"]):
        return False
    if not top and decode_ws(el.tail, base) != list(node["tail"]):
        return False
    kids = [c for c in el if isinstance(c.tag, str)]
    if len(kids) != len(node["ch"]):
        return False
    return all(same_as_model(c, n, base, False) for c, n in zip(kids, node["ch"]))


def paragraphs(section) -> list:
    return [odftext.collapse(p) for p in section.iter(TX + "p")]


def skeleton(el):
    return (el.tag, tuple(sorted(el.attrib.items())), tuple(skeleton(c) for c in el if isinstance(c.tag, str)))


def replay(entries, batch=400):
    """-> (mismatches, stats)"""
    from odfdo import Document, Element

    out = []
    stats = {"docs": 0, "spec_equal": 0, "spec_differs": 0}
    for b0 in range(0, len(entries), batch):
        chunk = entries[b0 : b0 + batch]
        doc = Document("text")
        body = doc.body
        body.clear()
        for i, e in enumerate(chunk):
            _letter[0] = LETTERS[(b0 + i) % len(LETTERS)]
            el = build(e["doc"])
            el.set(TX + "name", f"d{b0 + i}")
            body.append(Element.from_tag(el))
        part = doc.content
        plain0 = part.serialize()
        pretty = part.serialize(pretty=True)
        plain1 = part.serialize()
        if plain0 != plain1:
            out.append({"kind": "C11:pretty-serialisation-edited-memory", "batch": b0})
        r0 = etree.fromstring(plain0)
        r1 = etree.fromstring(pretty)
        s0 = [s for s in r0.iter(TX + "section") if (s.get(TX + "name") or "").startswith("d") and s.getparent().tag.endswith("}text")]
        s1 = [s for s in r1.iter(TX + "section") if (s.get(TX + "name") or "").startswith("d") and s.getparent().tag.endswith("}text")]
        if len(s0) != len(chunk) or len(s1) != len(chunk):
            out.append({"kind": "C11:pretty-changed-structure", "batch": b0, "got": [len(s0), len(s1)], "want": len(chunk)})
            continue
        for i, e in enumerate(chunk):
            stats["docs"] += 1
            a, b = s0[i], s1[i]
            if skeleton(a) != skeleton(b):
                out.append({"kind": "C11:pretty-changed-structure", "doc": e["doc"], "xml": etree.tostring(b).decode()})
                continue
            pa, pb = paragraphs(a), paragraphs(b)
            if pa != pb:
                out.append({"kind": "C11:pretty-changed-text", "doc": e["doc"], "plain": pa, "pretty": pb,
                            "xml_plain": etree.tostring(a, with_tail=False).decode(), "xml_pretty": etree.tostring(b, with_tail=False).decode()})
                continue
            # diagnostic: the section sits 3 levels below the root of content.xml
            if same_as_model(b, e["pretty"], 3, True):
                stats["spec_equal"] += 1
            else:
                stats["spec_differs"] += 1
                stats.setdefault("first_difference", {"model": e["pretty"], "xml": etree.tostring(b, with_tail=False).decode()})
    return out, stats


def run_pretty_part(run, tier):
    rich = tier != "quick"
    r = model_check(rich)
    run.add_tlc("Pretty", r, constants={"Rich": rich, "TailRule": "end-of-paragraph"})
    if not r.ok:
        run.violation(f"model|Pretty|{r.violated}", {"stdout_tail": r.stdout[-3000:]})
    r2 = model_check(False, "always")
    if r2.ok or r2.violated != "ReadableKept":
        run.machinery("Pretty.tla with the old tail rule should violate ReadableKept")
    res, entries = dump(rich)
    run.add_tlc("Pretty(dump)", res)
    mism, stats = replay(entries)
    run.count(stats["docs"])
    run.validated(stats["docs"])
    run.notes["pretty_replay"] = {k: v for k, v in stats.items() if k != "first_difference"}
    if "first_difference" in stats:
        run.notes["pretty_first_layout_difference"] = stats["first_difference"]
    for e in entries:
        d = e["doc"]
        for p in d["ch"]:
            run.klass("pretty", len(p["ch"]), tuple(c["k"] for c in p["ch"]), bool(p["text"]))
    for m in mism:
        run.violation(f"{m['kind']}|pretty-replay", m)
    return mism, stats
