"""Binding between the abstract table state of Grid.tla and the real
odfdo.Table: build a real table from an abstract state in a chosen run-length
encoding, apply an operation record, and project the result back with an
INDEPENDENT lxml reader (no odfdo code in the projection)."""

from __future__ import annotations

import json
import random
from typing import Any

from lxml import etree

NS = {
    "table": "urn:oasis:names:tc:opendocument:xmlns:table:1.0",
    "office": "urn:oasis:names:tc:opendocument:xmlns:office:1.0",
    "text": "urn:oasis:names:tc:opendocument:xmlns:text:1.0",
}
T = "{%s}" % NS["table"]
O = "{%s}" % NS["office"]
E = 0
S = 9
Z = 8
K = 10   # text without a value type: no value, yet not empty (Grid.tla)


# ---------------------------------------------------------------- building
def cell_xml(c: int, rep: int = 1) -> str:
    r = f' table:number-columns-repeated="{rep}"' if rep > 1 else ""
    if c == E:
        return f"<table:table-cell{r}/>"
    if c == S:
        return f'<table:table-cell table:style-name="ce1"{r}/>'
    if c == K:
        return f"<table:table-cell{r}><text:p>k</text:p></table:table-cell>"
    if c == Z:
        # a real value that is falsy in Python, written without any text:p child (as other producers may do)
        return f'<table:table-cell office:value-type="float" office:value="0"{r}/>'
    return (
        f'<table:table-cell office:value-type="float" office:value="{c}"{r}>'
        f"<text:p>{c}</text:p></table:table-cell>"
    )


def col_xml(c: int, rep: int = 1) -> str:
    r = f' table:number-columns-repeated="{rep}"' if rep > 1 else ""
    s = f' table:style-name="co{c}"' if c else ""
    return f"<table:table-column{s}{r}/>"


def runs_of(seq: list, enc: str, rng: random.Random | None) -> list[tuple[Any, int]]:
    """Group a sequence into runs of equal adjacent items.
    enc: 'max' merges everything mergeable, 'none' never merges,
    'rand' merges each mergeable boundary with probability 1/2."""
    runs: list[list] = []
    for item in seq:
        if runs and runs[-1][0] == item and enc != "none":
            if enc == "max" or (rng is not None and rng.random() < 0.5):
                runs[-1][1] += 1
                continue
        runs.append([item, 1])
    return [(a, b) for a, b in runs]


def _group_marks(n: int, first: int, rng) -> dict:
    """open/close marks of one (possibly nested) group over the run indexes first..n-1: {index: (opens, closes)}"""
    marks: dict = {}
    if rng is None or n - first < 1 or rng.random() > 0.3:
        return marks
    a = rng.randint(first, n - 1)
    b = rng.randint(a, n - 1)
    marks[a] = [1, 0]
    marks.setdefault(b, [0, 0])[1] += 1
    if rng.random() < 0.4:          # a nested group inside
        c = rng.randint(a, b)
        d = rng.randint(c, b)
        marks.setdefault(c, [0, 0])[0] += 1
        marks.setdefault(d, [0, 0])[1] += 1
    return marks


def table_xml(state: dict, enc: str = "max", rng: random.Random | None = None, name: str = "T", groups=None) -> str:
    """groups = (hc, hr): the first hc column runs are wrapped in table:table-header-columns and the first hr row
    runs in table:table-header-rows (what LibreOffice writes for repeated heading rows / print titles).
    With enc == 'rand' and groups None the grouping is drawn at random (none 2 times out of 3), and the runs after
    the header ones may sit in (nested) table:table-row-group / table:table-column-group elements (outlines)."""
    col_runs = runs_of(list(state["cols"]), enc, rng)
    row_runs = runs_of([tuple(r) for r in state["rows"]], enc, rng)
    cmarks: dict = {}
    rmarks: dict = {}
    if groups is None:
        groups = (0, 0)
        if enc == "rand" and rng is not None and rng.random() < 0.34:
            groups = (rng.randint(0, len(col_runs)) if rng.random() < 0.5 else 0, rng.randint(0, len(row_runs)))
            cmarks = _group_marks(len(col_runs), groups[0], rng)
            rmarks = _group_marks(len(row_runs), groups[1], rng)
    hc, hr = groups
    parts = [f'<table:table table:name="{name}">']
    for i, (c, n) in enumerate(col_runs):
        if hc and i == 0:
            parts.append("<table:table-header-columns>")
        parts.append("<table:table-column-group>" * cmarks.get(i, (0, 0))[0])
        parts.append(col_xml(c, n))
        parts.append("</table:table-column-group>" * cmarks.get(i, (0, 0))[1])
        if hc and i == min(hc, len(col_runs)) - 1:
            parts.append("</table:table-header-columns>")
    for i, (r, n) in enumerate(row_runs):
        if hr and i == 0:
            parts.append("<table:table-header-rows>")
        parts.append("<table:table-row-group>" * rmarks.get(i, (0, 0))[0])
        rr = f' table:number-rows-repeated="{n}"' if n > 1 else ""
        parts.append(f"<table:table-row{rr}>")
        for c, k in runs_of(list(r), enc, rng):
            parts.append(cell_xml(c, k))
        parts.append("</table:table-row>")
        parts.append("</table:table-row-group>" * rmarks.get(i, (0, 0))[1])
        if hr and i == min(hr, len(row_runs)) - 1:
            parts.append("</table:table-header-rows>")
    parts.append("</table:table>")
    return "".join(parts)


def build_table(state: dict, enc: str = "max", rng: random.Random | None = None):
    from odfdo import Element

    return Element.from_tag(table_xml(state, enc, rng))


def make_cell(c: int, rep: int = 1):
    from odfdo import Cell

    if c == E:
        cell = Cell()
    elif c == S:
        cell = Cell(style="ce1")
    elif c == Z:
        cell = Cell(0)
    elif c == K:
        from odfdo import Element

        cell = Element.from_tag(_ns_cell(cell_xml(K)))
    else:
        cell = Cell(c)
    if rep > 1:
        cell.repeated = rep
    return cell


def make_row(r, rep: int = 1, enc: str = "max", rng=None):
    from odfdo import Element

    rr = f' table:number-rows-repeated="{rep}"' if rep > 1 else ""
    xml = f"<table:table-row{rr}>" + "".join(cell_xml(c, k) for c, k in runs_of(list(r), enc, rng)) + "</table:table-row>"
    return Element.from_tag(xml)


def make_column(c: int, rep: int = 1):
    from odfdo import Column

    col = Column(style=f"co{c}") if c else Column()
    if rep > 1:
        col.repeated = rep
    return col


# ---------------------------------------------------------------- projection
def _rep(el, attr: str, raw: list) -> int:
    v = el.get(attr)
    if v is None:
        return 1
    raw.append(v)
    try:
        n = int(v)
    except ValueError:
        return 1
    return max(n, 1)


def _ns_cell(xml: str) -> str:
    return xml.replace("<table:table-cell", '<table:table-cell xmlns:table="%s" xmlns:text="%s"' % (NS["table"], NS["text"]), 1)


def cell_code(el, valmap: dict | None = None) -> int:
    """Abstract code of one XML cell: by office:value (small ints map to
    themselves), S for a styled empty cell, 0 for an empty one."""
    vt = el.get(O + "value-type")
    if vt is None and len(el) == 0 and not (el.text or "").strip():
        if el.tag == T + "covered-table-cell":
            return _code(("covered",), valmap)
        if el.get(T + "number-columns-spanned") or el.get(T + "number-rows-spanned"):
            return _code(("span", el.get(T + "number-columns-spanned"), el.get(T + "number-rows-spanned")), valmap)
        return S if el.get(T + "style-name") is not None else E
    if vt is None and len(el) == 1 and (el[0].text or "") == "k" and len(el[0]) == 0 and el.get(T + "style-name") is None \
            and el.tag == T + "table-cell" and not el.get(T + "number-columns-spanned") and not el.get(T + "number-rows-spanned"):
        return K
    key: tuple
    if vt == "float":
        v = el.get(O + "value")
        try:
            f = float(v)
            if f == int(f) and 0 < int(f) < 8 and el.get(T + "style-name") is None:
                return int(f)
            if f == 0 and el.get(T + "style-name") is None:
                return Z
        except (TypeError, ValueError):
            pass
        key = ("float", v, el.get(T + "style-name"))
    else:
        txt = "".join(el.itertext())
        key = (
            vt,
            el.get(O + "value"),
            el.get(O + "date-value"),
            el.get(O + "time-value"),
            el.get(O + "boolean-value"),
            el.get(O + "string-value"),
            txt,
            el.get(T + "style-name"),
            el.tag,
        )
    return _code(key, valmap)


def _code(key: tuple, valmap: dict | None) -> int:
    if valmap is None:
        valmap = _GLOBAL_VALMAP
    if key not in valmap:
        valmap[key] = 10 + len(valmap)
    return valmap[key]


_GLOBAL_VALMAP: dict = {}


def xml_project(xml: bytes | str, valmap: dict | None = None, _only_parse: bool = False):
    """Independent expansion of a serialized table:table element.
    Returns the abstract state plus the raw structural facts C07 talks about."""
    if isinstance(xml, str):
        xml = xml.encode()
    wrapper = (
        b'<r xmlns:table="%s" xmlns:office="%s" xmlns:text="%s" '
        b'xmlns:style="urn:oasis:names:tc:opendocument:xmlns:style:1.0" '
        b'xmlns:draw="urn:oasis:names:tc:opendocument:xmlns:drawing:1.0" '
        b'xmlns:xlink="http://www.w3.org/1999/xlink" '
        b'xmlns:svg="urn:oasis:names:tc:opendocument:xmlns:svg-compatible:1.0" '
        b'xmlns:fo="urn:oasis:names:tc:opendocument:xmlns:xsl-fo-compatible:1.0" '
        b'xmlns:number="urn:oasis:names:tc:opendocument:xmlns:datastyle:1.0" '
        b'xmlns:calcext="urn:org:documentfoundation:names:experimental:calc:xmlns:calcext:1.0" '
        b'xmlns:dc="http://purl.org/dc/elements/1.1/" '
        b'xmlns:meta="urn:oasis:names:tc:opendocument:xmlns:meta:1.0" '
        b'xmlns:form="urn:oasis:names:tc:opendocument:xmlns:form:1.0" '
        b'xmlns:script="urn:oasis:names:tc:opendocument:xmlns:script:1.0" '
        b'xmlns:presentation="urn:oasis:names:tc:opendocument:xmlns:presentation:1.0" '
        b'xmlns:loext="urn:org:documentfoundation:names:experimental:office:xmlns:loext:1.0" '
        b'xmlns:chart="urn:oasis:names:tc:opendocument:xmlns:chart:1.0" '
        b'xmlns:math="http://www.w3.org/1998/Math/MathML" '
        b'xmlns:dr3d="urn:oasis:names:tc:opendocument:xmlns:dr3d:1.0" '
        b'xmlns:of="urn:oasis:names:tc:opendocument:xmlns:of:1.2" '
        b'xmlns:xforms="http://www.w3.org/2002/xforms" '
        b'xmlns:tableooo="http://openoffice.org/2009/table" '
        b'xmlns:field="urn:openoffice:names:experimental:ooo-ms-interop:xmlns:field:1.0" '
        b'xmlns:smil="urn:oasis:names:tc:opendocument:xmlns:smil-compatible:1.0" '
        b'xmlns:anim="urn:oasis:names:tc:opendocument:xmlns:animation:1.0" '
        b'xmlns:ooo="http://openoffice.org/2004/office" xmlns:ooow="http://openoffice.org/2004/writer" '
        b'xmlns:oooc="http://openoffice.org/2004/calc" xmlns:dom="http://www.w3.org/2001/xml-events" '
        b'xmlns:xsd="http://www.w3.org/2001/XMLSchema" xmlns:xsi="http://www.w3.org/2001/XMLSchema-instance" '
        b'xmlns:rpt="http://openoffice.org/2005/report" xmlns:xhtml="http://www.w3.org/1999/xhtml" '
        b'xmlns:grddl="http://www.w3.org/2003/g/data-view#" xmlns:drawooo="http://openoffice.org/2010/draw" '
        b'xmlns:formx="urn:openoffice:names:experimental:ooxml-odf-interop:xmlns:form:1.0" '
        b'xmlns:css3t="http://www.w3.org/TR/css3-text/" xmlns:config="urn:oasis:names:tc:opendocument:xmlns:config:1.0" '
        b'xmlns:officeooo="http://openoffice.org/2009/office" xmlns:rdfa="http://docs.oasis-open.org/opendocument/meta/rdfa#" '
        b'xmlns:manifest="urn:oasis:names:tc:opendocument:xmlns:manifest:1.0" xmlns:db="urn:oasis:names:tc:opendocument:xmlns:database:1.0"'
        b">" % (NS["table"].encode(), NS["office"].encode(), NS["text"].encode())
    )
    root = etree.fromstring(wrapper + xml + b"</r>")
    if _only_parse:
        return root
    table = root[0]
    return project_element(table, valmap)


def parse_wrapped(xml):
    """Parse a serialized odfdo fragment under a root declaring every ODF namespace."""
    return xml_project(xml, _only_parse=True)


def project_element(table, valmap: dict | None = None) -> dict:
    raw_reps: list[str] = []
    cols: list[int] = []
    rows: list[list[int]] = []
    struct = {"bad": []}
    seen_row = False

    def col_el(el):
        if seen_row:
            struct["bad"].append("column-after-row")
        n = _rep(el, T + "number-columns-repeated", raw_reps)
        sty = el.get(T + "style-name")
        code = 0
        if sty is not None:
            code = int(sty[2:]) if sty.startswith("co") and sty[2:].isdigit() and len(sty) < 5 else _code(("colstyle", sty), valmap)
        cols.extend([code] * n)

    def row_el(el):
        n = _rep(el, T + "number-rows-repeated", raw_reps)
        cells: list[int] = []
        for c in el:
            if not isinstance(c.tag, str):
                continue
            if c.tag not in (T + "table-cell", T + "covered-table-cell"):
                struct["bad"].append("row-child:" + etree.QName(c).localname)
                continue
            k = _rep(c, T + "number-columns-repeated", raw_reps)
            cells.extend([cell_code(c, valmap)] * k)
        for _ in range(n):
            rows.append(list(cells))

    for ch in table:
        if not isinstance(ch.tag, str):
            continue
        ln = etree.QName(ch).localname
        if ch.tag == T + "table-column":
            col_el(ch)
        elif ln in ("table-columns", "table-header-columns"):
            for c in ch:
                if c.tag == T + "table-column":
                    col_el(c)
        elif ln == "table-column-group":
            for c in ch.iter(T + "table-column"):
                col_el(c)
        elif ch.tag == T + "table-row":
            seen_row = True
            row_el(ch)
        elif ln in ("table-rows", "table-header-rows"):
            seen_row = True
            for r in ch:
                if r.tag == T + "table-row":
                    row_el(r)
        elif ln == "table-row-group":
            seen_row = True
            for r in ch.iter(T + "table-row"):
                row_el(r)
    for v in raw_reps:
        ok = v.isdigit() and int(v) >= 2
        if not ok:
            struct["bad"].append("repeat=" + repr(v))
    return {"rows": rows, "cols": cols, "bad": struct["bad"], "nreps": len(raw_reps)}


# ---------------------------------------------------------------- values
def val_code(v, valmap: dict | None = None) -> int:
    """Abstract code of a value returned by a live read (None -> 0)."""
    if v is None:
        return E
    from decimal import Decimal

    if isinstance(v, bool):
        return _code(("pybool", v), valmap)
    if isinstance(v, (int, Decimal, float)):
        try:
            if v == int(v) and 0 < int(v) < 8:
                return int(v)
            if v == 0:
                return Z
        except (ValueError, OverflowError):
            pass
    return _code(("py", repr(v)), valmap)


def live_cell_code(cell, valmap: dict | None = None) -> int:
    """Abstract code of a live Cell object, through its own XML (lxml)."""
    if cell is None:
        return -1
    el = cell._Element__element
    return cell_code(el, valmap)


# ---------------------------------------------------------------- applying ops
def pyval(c):
    """Python value given to the API for an abstract cell code."""
    return None if c == E else (0 if c == Z else c)


# objects already given to a table as arguments: the caller may pass the SAME Cell / Row / Column object again later (the
# library copies its arguments by default, so this must behave exactly like passing an equal fresh object)
_ARG_POOL: dict = {}


def _arg(table, rng, kind: str, key, factory):
    pool = _ARG_POOL.setdefault(id(table), {})
    if len(_ARG_POOL) > 4000:
        _ARG_POOL.clear()
        pool = _ARG_POOL.setdefault(id(table), {})
    k = (kind, json.dumps(key))
    if rng is not None and k in pool and rng.random() < 0.5:
        return pool[k]
    obj = factory()
    if rng is not None:
        pool[k] = obj
    return obj


def _sharing(rng):
    """cell factory for ONE call taking a list of cells: half of the time equal cells of the list are the very same Cell
    object, and equal lines the very same list (the library copies its arguments by default: no difference may show)"""
    share = rng is not None and rng.random() < 0.5
    cells: dict = {}
    lines: dict = {}

    def cell(v):
        if not share:
            return make_cell(v)
        if v not in cells:
            cells[v] = make_cell(v)
        return cells[v]

    def line(vs):
        if not share:
            return [cell(v) for v in vs]
        k = tuple(vs)
        if k not in lines:
            lines[k] = [cell(v) for v in vs]
        return lines[k]

    return cell, line


def apply_op(table, o: dict, rng: random.Random | None = None, enc: str = "max"):
    """Apply one Grid.tla operation record to a real Table."""
    op = o["op"]
    if op in ("set_cell", "insert_cell", "append_cell") and rng is not None:
        cell = _arg(table, rng, "cell", [o["c"], o["n"]], lambda: make_cell(o["c"], o["n"]))
        if op == "set_cell":
            return table.set_cell((o["x"], o["y"]), cell)
        if op == "insert_cell":
            return table.insert_cell((o["x"], o["y"]), cell)
        return table.append_cell(o["y"], cell)
    if op == "set_cell":
        return table.set_cell((o["x"], o["y"]), make_cell(o["c"], o["n"]))
    if op == "set_value":
        v = pyval(o["c"])
        return table.set_value((o["x"], o["y"]), v)
    if op == "insert_cell":
        return table.insert_cell((o["x"], o["y"]), make_cell(o["c"], o["n"]))
    if op == "append_cell":
        return table.append_cell(o["y"], make_cell(o["c"], o["n"]))
    if op == "delete_cell":
        return table.delete_cell((o["x"], o["y"]))
    alt = rng is not None and rng.random() < 0.35  # the sibling method documented as equivalent
    if op == "set_row":
        if alt and o["n"] == 1:
            return table.set_row_cells(o["y"], _sharing(rng)[1](o["r"]))
        return table.set_row(o["y"], make_row(o["r"], o["n"], enc, rng))
    if op == "insert_row":
        return table.insert_row(o["y"], make_row(o["r"], o["n"], enc, rng))
    if op == "append_row":
        return table.append_row(make_row(o["r"], o["n"], enc, rng))
    if op == "delete_row":
        return table.delete_row(o["y"])
    if op == "set_row_values":
        return table.set_row_values(o["y"], [pyval(v) for v in o["r"]])
    if op == "set_values":
        if alt:
            mk_line = _sharing(rng)[1]
            return table.set_cells([mk_line(line) for line in o["m"]], (o["x"], o["y"]))
        m = [[pyval(v) for v in line] for line in o["m"]]
        return table.set_values(m, (o["x"], o["y"]))
    if op == "insert_column":
        return table.insert_column(o["x"], make_column(o["c"], o["n"]))
    if op == "append_column":
        return table.append_column(make_column(o["c"], o["n"]))
    if op == "set_column":
        return table.set_column(o["x"], make_column(o["c"], o["n"]))
    if op == "delete_column":
        return table.delete_column(o["x"])
    if op == "set_column_cells":
        if alt and S not in o["r"] and K not in o["r"]:
            return table.set_column_values(o["x"], [pyval(c) for c in o["r"]])
        return table.set_column_cells(o["x"], _sharing(rng)[1](o["r"]))
    if op == "clear":
        return table.clear()
    if op == "extend_rows":
        return table.extend_rows([make_row(x["r"], x["n"], enc, rng) for x in o["rs"]])
    if op == "transpose":
        return table.transpose()
    if op == "transpose_area":
        from .coord_driver import alpha

        forms = [(o["x"], o["y"], o["z"], o["t"]), [o["x"], o["y"], o["z"], o["t"]], f"{alpha(o['x'])}{o['y'] + 1}:{alpha(o['z'])}{o['t'] + 1}"]
        return table.transpose(forms[rng.randrange(3)] if rng is not None else forms[0])
    if op == "rstrip":
        return table.rstrip(aggressive=bool(o["c"]))
    if op == "optimize_width":
        return table.optimize_width()
    if op in ("read", "csv"):
        return None
    raise ValueError(op)


def apply_row_op(row, o: dict, rng: random.Random | None = None):
    op = o["op"]
    alt = rng is not None and rng.random() < 0.35
    if op == "row_set_cell":
        if alt and o["n"] == 1 and o["c"] not in (S, K):
            return row.set_value(o["x"], pyval(o["c"]))
        return row.set_cell(o["x"], _arg(row, rng, "cell", [o["c"], o["n"]], lambda: make_cell(o["c"], o["n"])))
    if op == "row_clear":
        return row.clear()
    if op == "row_insert_cell":
        return row.insert_cell(o["x"], _arg(row, rng, "cell", [o["c"], o["n"]], lambda: make_cell(o["c"], o["n"])))
    if op == "row_append_cell":
        return row.append_cell(_arg(row, rng, "cell", [o["c"], o["n"]], lambda: make_cell(o["c"], o["n"])))
    if op == "row_delete_cell":
        return row.delete_cell(o["x"])
    if op == "row_set_values":
        if alt:
            return row.set_cells(_sharing(rng)[1](o["r"]), start=o["x"])
        return row.set_values([pyval(v) for v in o["r"]], start=o["x"])
    if op == "row_rstrip":
        return row.rstrip(aggressive=bool(o["c"]))
    raise ValueError(op)


# ---------------------------------------------------------------- live reads
READ_KINDS = (
    "size",
    "matrix",
    "widths",
    "vals",
    "rows",
    "rowvals",
    "colvals",
    "cells",
    "traverse",
    "colcells",
    "columns",
)


def live_reads(table, kinds=READ_KINDS, valmap: dict | None = None) -> dict:
    """Reads of the live object, in abstract form (names match Reads in
    GridMC.tla / GridTrace.tla)."""
    out: dict = {}
    w, h = table.size
    if "size" in kinds:
        out["size"] = [w, h]
    if "matrix" in kinds:
        out["matrix"] = [[val_code(v, valmap) for v in line] for line in table.get_values()]
    if "widths" in kinds:
        out["widths"] = [r.width for r in table.traverse()]
    if "vals" in kinds:
        out["vals"] = [[val_code(table.get_value((x, y)), valmap) for x in range(w + 1)] for y in range(h + 1)]
    if "rows" in kinds:
        out["rows"] = [[live_cell_code(c, valmap) for c in table.get_row(y).traverse()] for y in range(h + 1)]
    if "rowvals" in kinds:
        out["rowvals"] = [[val_code(v, valmap) for v in table.get_row_values(y)] for y in range(h)]
    if "colvals" in kinds:
        out["colvals"] = [[val_code(v, valmap) for v in table.get_column_values(x)] for x in range(w + 1)]
    if "cells" in kinds:
        out["cells"] = [[live_cell_code(table.get_cell((x, y)), valmap) for x in range(w + 1)] for y in range(h + 1)]
    if "traverse" in kinds:
        out["traverse"] = [[live_cell_code(c, valmap) for c in r.traverse()] for r in table.traverse()]
    if "colcells" in kinds:
        out["colcells"] = [[live_cell_code(c, valmap) for c in table.get_column_cells(x)] for x in range(w + 1)]
    if "columns" in kinds:
        out["columns"] = [col_code(c, valmap) for c in table.traverse_columns()]
    return out


def col_code(col, valmap=None) -> int:
    sty = col.style
    if sty is None:
        return 0
    if sty.startswith("co") and sty[2:].isdigit() and len(sty) < 5:
        return int(sty[2:])
    return _code(("colstyle", sty), valmap)


def expected_reads(state: dict) -> dict:
    """The same reads computed from an abstract state.  Only used as a
    DIAGNOSTIC helper and to cross-check TLC's own Reads(); verdicts use
    the values computed by TLC."""
    rows = state["rows"]
    w = len(state["cols"])
    h = len(rows)

    def val(x, y):
        return rows[y][x] if y < h and x < len(rows[y]) else E

    pad = lambda r, n: list(r) + [E] * max(0, n - len(r))  # noqa: E731
    return {
        "size": [w, h],
        "matrix": [pad(r, w) for r in rows],
        "widths": [len(r) for r in rows],
        "vals": [[val(x, y) for x in range(w + 1)] for y in range(h + 1)],
        "rows": [list(rows[y]) if y < h else [] for y in range(h + 1)],
        "rowvals": [pad(rows[y], w) for y in range(h)],
        "colvals": [[val(x, y) for y in range(h)] for x in range(w + 1)],
        "cells": [[val(x, y) for x in range(w + 1)] for y in range(h + 1)],
        "traverse": [list(r) for r in rows],
        "colcells": [[val(x, y) for y in range(h)] for x in range(w + 1)],
        "columns": list(state["cols"]),
    }
