"""Shared engine of the package properties (C03 C04 C10 C11 C15):
PackageMC.tla (implementation-shaped design, exhaustive) + PackageTrace.tla
validation of recorded histories of real documents."""

from __future__ import annotations

from collections import defaultdict

from . import pkg_driver as pd
from .tlc import make_cfg, run_tlc

MC_INV = ["MemoryIsBelief", "ManifestIsBelief", "ManifestCoherent"]
MC_PROP = ["SaveFaithful", "SaveNeutral", "CloneEqualAtBirth"]


def model_check(run, tier):
    consts = {"XmlParts": {"content", "styles", "meta"}, "BinParts": {"thumb"}, "NewBins": {"pic"},
              "MaxK": 4 if tier == "quick" else 6, "Lazy": True}
    for lazy in (True, False):
        consts["Lazy"] = lazy
        cfg = make_cfg(spec="Spec", constants=consts, invariants=MC_INV, properties=MC_PROP)
        res = run_tlc("PackageMC", cfg, workers=16, timeout=1500)
        run.add_tlc(f"PackageMC exhaustive (lazy={lazy})", res, {k: sorted(v) if isinstance(v, set) else v for k, v in consts.items()})
        if not res.ok:
            run.violation(f"model|{res.violated}", {"kind": "model", "tlc": res.stdout[-3000:]})


def event_class(tr, i):
    ev = tr[i]
    prev = [e["op"] for e in tr[max(0, i - 2): i]]
    return (ev["op"], ev.get("packaging"), ev.get("pretty"), ev.get("part", "")[:12] if ev["op"] in ("edit", "set_part") else "", tuple(prev[-1:]), tr[0]["how"])


def run_package_property(run, tier, prefixes, ntraces=None, nsteps=None, sources=None, mc=True, harvest=False):
    if mc:
        model_check(run, tier)
    n = ntraces or (320 if tier == "quick" else 3000)
    steps = nsteps or (10 if tier == "quick" else 12)
    traces = pd.generate(n, run.seed, steps, sources=sources)
    if not isinstance(sources, str):
        # every document type of the standard, declared on a document, saved in each packaging and reopened
        sweep = pd.generate(0, run.seed, 4, sources="retype-sweep")
        run.notes["retype_sweep_histories"] = len(sweep)
        traces = traces + sweep
        # every sample file exported to flat XML straight after being opened (path / memory / folder), before any part was read
        ssweep = pd.generate(0, run.seed, 5, sources="setpart-sweep")
        run.notes["setpart_sweep_histories"] = len(ssweep)
        traces = traces + ssweep
        msweep = pd.generate(0, run.seed, 7, sources="merge-sweep")
        run.notes["merge_sweep_histories"] = len(msweep)
        traces = traces + msweep
        fsweep = pd.generate(0, run.seed, 3, sources="flat-sweep")
        run.notes["flat_sweep_histories"] = len(fsweep)
        traces = traces + fsweep
    if harvest:
        # the Document.save calls of the repository's own tests, as two-event traces
        rc, htraces, _tests, tail = pd.harvest_repo_save_calls()
        run.notes["harvested_save_calls"] = len(htraces)
        run.notes["harvest_pytest"] = f"rc={rc} {tail[:60]}"
        traces = traces + htraces
    res, rep = pd.validate(traces)
    run.add_tlc("PackageTrace validation of recorded histories", res)
    if rep is None:
        run.machinery("PackageTrace produced no report:\n" + res.stdout[-2000:])
    nev = sum(len(t) for t in traces)
    run.count(nev)
    run.validated(len(traces))
    run.notes["trace_events"] = nev
    srcs = defaultdict(int)
    for tr in traces:
        srcs[tr[0]["src"]] += 1
        for i in range(len(tr)):
            run.klass(*event_class(tr, i))
    run.notes["sources_used"] = len(srcs)
    if traces:
        run.sample({"binding": "B:package-trace", "events": [{k: v for k, v in e.items() if k in ("op", "src", "how", "part", "packaging", "pretty", "target", "new")} for e in traces[0][:6]]})
    diag = defaultdict(int)
    for v in rep["verdicts"]:
        tr = traces[v["tid"] - 1]
        ev = tr[v["l"] - 1]
        clause = v["clause"]
        hist = [{k: x for k, x in e.items() if k in ("op", "src", "how", "part", "packaging", "pretty", "target", "via", "exc", "exc_detail")} for e in tr[: v["l"]]]
        if clause.startswith("exc:") or any(clause.startswith(p) for p in prefixes):
            sig = f"{clause}|{ev['op']}|{ev.get('packaging', '')}|{tr[0]['how']}"
            run.violation(sig, {"kind": clause, "history": hist, "event": ev})
        else:
            diag[clause] += 1
    run.notes["diagnostics_other_properties"] = dict(diag)
    return traces, rep
