"""External tracing of the repository's own tests (no change to jdum/odfdo).

    cd /repo && ODFDO_VERIF=1 ODFDO_VERIF_TRACE=<file> PYTHONPATH=/verif \
        /venv/bin/python -m pytest -q -p harness.pytest_trace_plugin tests/table

Only when ODFDO_VERIF=1: at session start the mutating public methods of
odfdo.table.Table are wrapped (outermost call only, depth counter; logging in
`finally` so the error path is logged too).  One JSON line per call: the test,
the operation translated into a Grid.tla operation record when the arguments
are understood (otherwise "untranslated": only the state invariants apply), and
the independent lxml expansion of the table before and after."""

from __future__ import annotations

import json
import os
import threading

_state = threading.local()
_current_test = {"id": ""}
_vault_events: list = []
MUTATORS = [
    "set_value", "set_cell", "insert_cell", "append_cell", "delete_cell", "set_row", "insert_row", "append_row", "delete_row",
    "set_row_values", "set_row_cells", "set_values", "set_cells", "insert_column", "append_column", "set_column", "delete_column",
    "set_column_cells", "set_column_values", "transpose", "rstrip", "optimize_width", "set_span", "del_span", "extend_rows", "set_cell_image",
    "set_named_range", "delete_named_range", "append",
]


def _alpha_to_int(s: str) -> int:
    n = 0
    for ch in s.upper():
        n = n * 26 + (ord(ch) - 64)
    return n - 1


def _coord(c, w: int, h: int):
    """(x, y) from 'C4' / (x, y) / [x, y] with negatives counted from the end; None if not understood"""
    if isinstance(c, str):
        c = c.strip()
        i = 0
        while i < len(c) and c[i].isalpha():
            i += 1
        if i == 0 or i == len(c) or not c[i:].isdigit():
            return None
        x, y = _alpha_to_int(c[:i]), int(c[i:]) - 1
    elif isinstance(c, (tuple, list)) and len(c) == 2 and all(isinstance(v, int) and not isinstance(v, bool) for v in c):
        x, y = c
    else:
        return None
    if x < 0:
        x += w
    if y < 0:
        y += h
    if x < 0 or y < 0:
        return None
    return x, y


def _pos(v, n: int, letters: bool):
    if isinstance(v, bool):
        return None
    if isinstance(v, int):
        return v + n if v < 0 else v
    if isinstance(v, str):
        v = v.strip()
        if letters and v.isalpha():
            return _alpha_to_int(v)
        if not letters and v.isdigit():
            return int(v) - 1
    return None


def _translate(tl, table, name, args, kwargs, pre):
    from odfdo import Cell, Column, Row

    w, h = len(pre["cols"]), len(pre["rows"])

    def ccode(cell):
        return tl.live_cell_code(cell)

    def rep(el):
        r = el.repeated
        return r if r and r > 1 else 1

    def rowcodes(row):
        p = tl.xml_project("<table:table>" + row.serialize() + "</table:table>")
        return p["rows"][0] if p["rows"] else []

    try:
        if name == "set_value" and len(args) >= 2 or name == "set_value" and "value" in kwargs:
            xy = _coord(args[0] if args else kwargs.get("coord"), w, h)
            value = args[1] if len(args) > 1 else kwargs["value"]
            extra = {k: kwargs[k] for k in ("cell_type", "currency", "style") if k in kwargs}
            if len(args) > 2:
                return None
            if xy is None:
                return None
            return {"op": "set_cell", "x": xy[0], "y": xy[1], "c": ccode(Cell(value, **extra)), "n": 1}
        if name in ("set_cell", "insert_cell"):
            xy = _coord(args[0] if args else kwargs.get("coord"), w, h)
            cell = args[1] if len(args) > 1 else kwargs.get("cell")
            if xy is None:
                return None
            if cell is None:
                cell = Cell()
            if not isinstance(cell, Cell):
                return None
            return {"op": name, "x": xy[0], "y": xy[1], "c": ccode(cell), "n": rep(cell)}
        if name == "append_cell":
            y = _pos(args[0] if args else kwargs.get("y"), h, False)
            cell = args[1] if len(args) > 1 else kwargs.get("cell")
            if y is None:
                return None
            cell = Cell() if cell is None else cell
            return {"op": name, "y": y, "c": ccode(cell), "n": rep(cell)}
        if name == "delete_cell":
            xy = _coord(args[0] if args else kwargs.get("coord"), w, h)
            return None if xy is None else {"op": name, "x": xy[0], "y": xy[1]}
        if name in ("set_row", "insert_row"):
            y = _pos(args[0] if args else kwargs.get("y"), h, False)
            row = args[1] if len(args) > 1 else kwargs.get("row")
            if y is None:
                return None
            row = Row() if row is None else row
            if not isinstance(row, Row):
                return None
            return {"op": name, "y": y, "r": rowcodes(row), "n": rep(row)}
        if name in ("append_row", "append") and (not args or isinstance(args[0], Row) or args[0] is None):
            row = args[0] if args else kwargs.get("row")
            row = Row() if row is None else row
            if kwargs.get("_repeated") is not None:
                return None
            return {"op": "append_row", "r": rowcodes(row), "n": rep(row)}
        if name == "append" and args and isinstance(args[0], Column):
            return {"op": "append_column", "c": tl.col_code(args[0]), "n": rep(args[0])}
        if name == "delete_row":
            y = _pos(args[0] if args else kwargs.get("y"), h, False)
            return None if y is None else {"op": name, "y": y}
        if name == "set_row_values":
            y = _pos(args[0] if args else kwargs.get("y"), h, False)
            values = args[1] if len(args) > 1 else kwargs.get("values")
            extra = {k: kwargs[k] for k in ("cell_type", "currency", "style") if k in kwargs}
            if y is None or values is None or len(args) > 2:
                return None
            return {"op": name, "y": y, "r": [ccode(Cell(v, **extra)) for v in values]}
        if name == "set_values":
            values = args[0] if args else kwargs.get("values")
            coord = args[1] if len(args) > 1 else kwargs.get("coord")
            extra = {k: kwargs[k] for k in ("cell_type", "currency", "style") if k in kwargs}
            if len(args) > 2:
                return None
            xy = (0, 0) if not coord else _coord(coord if not (isinstance(coord, (tuple, list)) and len(coord) == 4) else coord[:2], w, h)
            if isinstance(coord, str) and ":" in coord:
                xy = _coord(coord.split(":")[0], w, h)
            if xy is None:
                return None
            return {"op": name, "x": xy[0], "y": xy[1], "m": [[ccode(Cell(v, **extra)) for v in line] for line in values]}
        if name in ("insert_column", "set_column"):
            x = _pos(args[0] if args else kwargs.get("x"), w, True)
            col = args[1] if len(args) > 1 else kwargs.get("column")
            if x is None:
                return None
            col = Column() if col is None else col
            return {"op": name, "x": x, "c": tl.col_code(col), "n": rep(col)}
        if name == "append_column":
            col = args[0] if args else kwargs.get("column")
            if kwargs.get("_repeated") is not None or len(args) > 1:
                return None
            col = Column() if col is None else col
            return {"op": name, "c": tl.col_code(col), "n": rep(col)}
        if name == "delete_column":
            x = _pos(args[0] if args else kwargs.get("x"), w, True)
            return None if x is None else {"op": name, "x": x}
        if name == "transpose" and not args and not kwargs:
            return {"op": "transpose"}
        if name == "rstrip":
            ag = args[0] if args else kwargs.get("aggressive", False)
            return {"op": "rstrip", "c": 1 if ag else 0}
        if name == "optimize_width":
            return {"op": "optimize_width"}
    except Exception:  # noqa: BLE001
        return None
    return None


def _wrap(cls, name, out_path):
    import sys

    sys.path.insert(0, os.path.dirname(os.path.dirname(os.path.abspath(__file__))))
    from harness import tablelib as tl

    orig = getattr(cls, name)

    def wrapper(self, *args, **kwargs):
        depth = getattr(_state, "depth", 0)
        if depth > 0 or getattr(self, "tag", None) != "table:table":
            return orig(self, *args, **kwargs)
        _state.depth = 1
        ev = {"test": _current_test["id"], "method": name}
        try:
            try:
                pre = tl.xml_project(self.serialize())
                ev["pre"] = {"rows": pre["rows"], "cols": pre["cols"]}
                ev["pre_ok"] = not pre["bad"] and all(len(r) <= len(pre["cols"]) for r in pre["rows"])
                op = _translate(tl, self, name, args, kwargs, ev["pre"])
                ev["op"] = op if op is not None else {"op": "untranslated"}
            except Exception:  # noqa: BLE001
                ev = None
            try:
                return orig(self, *args, **kwargs)
            except Exception as ex:
                if ev is not None:
                    ev["exc"] = type(ex).__name__
                raise
        finally:
            _state.depth = 0
            if ev is not None:
                try:
                    post = tl.xml_project(self.serialize())
                    ev["post"] = {"rows": post["rows"], "cols": post["cols"]}
                    ev["bad"] = sorted(set(post["bad"]))
                    with open(out_path, "a") as f:
                        f.write(json.dumps(ev) + "\n")
                except Exception:  # noqa: BLE001, S110
                    pass

    wrapper.__name__ = name
    wrapper.__doc__ = orig.__doc__
    setattr(cls, name, wrapper)


TEXT_METHODS = {
    # inserting markup: the readable text of the paragraph must stay what it was
    "set_span": "insert", "set_link": "insert", "set_bookmark": "insert", "set_reference_mark": "insert", "set_reference_mark_end": "insert",
    "insert_note": "insert", "insert_annotation": "insert", "insert_annotation_end": "insert", "insert_variable": "insert",
    "insert_reference": "insert",
    # removing markup keeps everything inside
    "remove_spans": "strip", "remove_links": "strip",
    # plain text appended (the constructor goes through it too)
    "append_plain_text": "append",
}


def _wrap_text(cls, name, klass, out_path):
    import sys

    sys.path.insert(0, os.path.dirname(os.path.dirname(os.path.abspath(__file__))))
    from harness import markup_lib as ml

    orig = getattr(cls, name)

    def wrapper(self, *args, **kwargs):
        depth = getattr(_state, "tdepth", 0)
        if depth > 0 or getattr(self, "tag", None) not in ("text:p", "text:h", "text:span"):
            return orig(self, *args, **kwargs)
        _state.tdepth = 1
        ev = {"test": _current_test["id"], "method": name, "kind": "text", "class": klass, "tag": self.tag}
        try:
            try:
                ev["pre"] = ml.project(self)
                if klass == "append":
                    text = args[0] if args else kwargs.get("text", "")
                    if isinstance(text, bytes):
                        text = text.decode("utf-8")
                    if not isinstance(text, str):
                        ev = None
                    else:
                        ev["text"] = [ord(c) for c in text]
            except Exception:  # noqa: BLE001
                ev = None
            try:
                return orig(self, *args, **kwargs)
            except Exception as ex:
                if ev is not None:
                    ev["exc"] = type(ex).__name__
                raise
        finally:
            _state.tdepth = 0
            if ev is not None:
                try:
                    ev["post"] = ml.project(self)
                    with open(out_path, "a") as f:
                        f.write(json.dumps(ev) + "\n")
                except Exception:  # noqa: BLE001, S110
                    pass

    wrapper.__name__ = name
    wrapper.__doc__ = orig.__doc__
    setattr(cls, name, wrapper)


def _wrap_save(out_path):
    """Document.save of the repository's tests as two-event PackageTrace traces: what the document answers before
    the call is the belief; the file / folder / buffer written is read back with zipfile / os.walk / lxml only."""
    import io
    import sys
    from pathlib import Path

    sys.path.insert(0, os.path.dirname(os.path.dirname(os.path.abspath(__file__))))
    from harness import pkg_driver as pd
    from odfdo.document import Document

    orig = Document.save

    def wrapper(self, target=None, packaging="zip", pretty=None, backup=False, **kw):
        if getattr(_state, "sdepth", 0) > 0 or kw:
            return orig(self, target, packaging, pretty, backup, **kw)
        _state.sdepth = 1
        ev = None
        try:
            try:
                ids = pd.Ids()
                names = [n for n in self.get_parts() if not n.endswith("/") and n != pd.MANIFEST]
                mem = pd.doc_view(self, names, ids)
                mf = [str(x) for x in self.manifest.get_paths()]
                ev = {"ids": ids, "names": names, "open": {"op": "open", "src": _current_test["id"], "how": "template", "mem": mem, "mf": mf}}
            except Exception:  # noqa: BLE001
                ev = None
            try:
                return orig(self, target, packaging, pretty, backup)
            except Exception:
                ev = None
                raise
        finally:
            _state.sdepth = 0
            if ev is not None:
                try:
                    ids = ev["ids"]
                    pk = (packaging or "zip").strip().lower()
                    eff_pretty = bool(pretty) if pretty is not None else pk in ("folder", "xml")
                    sv = {"op": "save", "target": "t1", "packaging": pk, "pretty": eff_pretty}
                    tgt = target if target is not None else self.container.path
                    parts = None
                    if pk == "zip" and tgt is not None:
                        if isinstance(tgt, io.BytesIO):
                            pos = tgt.tell()
                            parts, zinfo = pd.read_zip(tgt)
                            tgt.seek(pos)
                        else:
                            parts, zinfo = pd.read_zip(str(tgt))
                        zinfo["mimetype_ok"] = parts.get("mimetype", b"").decode() == self.mimetype
                        sv["zip"] = zinfo
                    elif pk == "folder" and tgt is not None and not isinstance(tgt, io.BytesIO):
                        t = str(tgt).rstrip(os.sep)
                        while t.endswith(".folder"):
                            t = t[: -len(".folder")]
                        parts = pd.read_folder(Path(t + ".folder"))
                    elif pk == "xml" and tgt is not None and not isinstance(tgt, io.BytesIO):
                        sv["flat_ok"] = pd.flat_ok(Path(str(tgt)), self)
                        sv.update(saved={}, smf=[], smf_files=[], root_media_ok=True)
                    else:
                        sv = None
                    if sv is not None:
                        if parts is not None:
                            saved, smf, smf_files, root_ok = pd.project_package(parts, ids)
                            sv.update(saved=saved, smf=smf, smf_files=smf_files, root_media_ok=root_ok)
                        sv["after"] = pd.doc_view(self, ev["names"], ids)
                        with open(out_path, "a") as f:
                            f.write(json.dumps({"kind": "pkg", "test": _current_test["id"], "trace": [ev["open"], sv]}) + "\n")
                except Exception:  # noqa: BLE001, S110
                    pass

    wrapper.__doc__ = orig.__doc__
    Document.save = wrapper


def _wrap_styles(out_path):
    """Document.insert_style of the repository's tests as one-event StylesTrace traces."""
    import sys

    sys.path.insert(0, os.path.dirname(os.path.dirname(os.path.abspath(__file__))))
    from harness import styles_lib as sl
    from odfdo.document import Document
    from odfdo.element import Element

    orig = Document.insert_style

    def wrapper(self, style, name="", automatic=False, default=False):
        if getattr(_state, "ydepth", 0) > 0:
            return orig(self, style, name, automatic, default)
        _state.ydepth = 1
        ev = None
        try:
            try:
                if isinstance(style, Element) and getattr(style, "family", None) in sl.MODEL_FAMILIES:
                    own = style.get_attribute("style:name") or ""
                    eff = name or own
                    ev = {"op": {"op": "insert", "d": "doc", "family": style.family, "name": "" if default and style.family != "font-face" and style.family in ("paragraph", "text", "table-cell", "table") else eff,
                                 "automatic": bool(automatic), "default": bool(default)},
                          "pre": sl.project(self), "pre_other": {c: [] for c in sl.CONTAINERS}, "test": _current_test["id"]}
            except Exception:  # noqa: BLE001
                ev = None
            try:
                ret = orig(self, style, name, automatic, default)
            except Exception as ex:
                if ev is not None:
                    ev["exc"] = type(ex).__name__
                    ev["ret"] = ""
                    ev["ret_ai"] = 0
                raise
            if ev is not None:
                ev["ret"] = ret if isinstance(ret, str) else ""
                ev["ret_ai"] = sl.auto_index(ev["ret"])
                try:
                    ev["found"] = sl.locate(self, self.get_style(ev["op"]["family"], ev["ret"] if ev["ret"] else None))
                except Exception:  # noqa: BLE001
                    pass
            return ret
        finally:
            _state.ydepth = 0
            if ev is not None:
                try:
                    ev["post"] = sl.project(self)
                    ev["post_other"] = ev["pre_other"]
                    with open(out_path, "a") as f:
                        f.write(json.dumps({"kind": "style", **ev}) + "\n")
                except Exception:  # noqa: BLE001, S110
                    pass

    wrapper.__doc__ = orig.__doc__
    Document.insert_style = wrapper


def pytest_configure(config):
    if os.environ.get("ODFDO_VERIF") != "1":
        return
    out_path = os.environ.get("ODFDO_VERIF_TRACE")
    if not out_path:
        return
    from odfdo.table import Table

    for name in MUTATORS:
        if hasattr(Table, name):
            _wrap(Table, name, out_path)
    if os.environ.get("ODFDO_VERIF_VAULT") == "1":
        import sys

        sys.path.insert(0, os.path.dirname(os.path.dirname(os.path.abspath(__file__))))
        from harness import vault_trace

        _vault_events.clear()
        vault_trace.install(_vault_events, limit=60000)
    if os.environ.get("ODFDO_VERIF_STYLES") == "1":
        _wrap_styles(out_path)
    if os.environ.get("ODFDO_VERIF_PKG") == "1":
        _wrap_save(out_path)
    if os.environ.get("ODFDO_VERIF_TEXT") == "1":
        from odfdo.paragraph import Paragraph

        for name, klass in TEXT_METHODS.items():
            if hasattr(Paragraph, name):
                _wrap_text(Paragraph, name, klass, out_path)


def pytest_sessionfinish(session, exitstatus):
    out_path = os.environ.get("ODFDO_VERIF_TRACE")
    if os.environ.get("ODFDO_VERIF") == "1" and out_path and _vault_events:
        with open(out_path, "a") as f:
            for ev in _vault_events:
                f.write(json.dumps({"kind": "vault", **ev}) + "\n")


def pytest_runtest_setup(item):
    _current_test["id"] = item.nodeid
