"""C10 driver for elements, cells, rows, columns, XML parts, containers:
clone at a random point, then mutate original and clone in a random
interleaving; after each step the serialisation of BOTH is recorded."""

from __future__ import annotations

import io
import json
import multiprocessing as mp
import os
import random
import tempfile
import zipfile
from pathlib import Path

from . import tablelib as tl
from .pkg_driver import Ids, sample_files
from .tlc import make_cfg, run_tlc

KINDS = ["paragraph", "cell", "row", "column", "frame", "list", "table", "xmlpart", "container", "container_path", "container_folder"]


def _ser(obj) -> str:
    from odfdo.container import Container
    from odfdo.xmlpart import XmlPart

    if isinstance(obj, XmlPart):
        return obj.serialize().decode() + "|root|" + obj.root.serialize()
    if isinstance(obj, Container):
        out = []
        for name in sorted(n for n in obj.get_parts() if not n.endswith("/")):
            try:
                out.append((name, obj.get_part(name)))
            except ValueError:
                out.append((name, "deleted"))
        return repr(out)
    s = obj.serialize()
    # cached positions are part of what a row/table answers
    if hasattr(obj, "get_values"):
        try:
            s += "|values|" + repr(obj.get_values())
        except Exception as ex:  # noqa: BLE001
            s += "|values-exc|" + type(ex).__name__
    if hasattr(obj, "width"):
        s += f"|w{obj.width}"
    # the coordinates a cell / row / column taken from a table carries
    if type(obj).__name__ in ("Cell", "Row", "Column"):
        s += f"|at{getattr(obj, 'x', None)},{getattr(obj, 'y', None)}"
    return s


def _make(kind: str, rng, tmp: Path):
    from odfdo import Cell, Column, Document, Element, Frame, List, Paragraph

    if kind == "paragraph":
        p = Paragraph("some text  with spaces\tand tab")
        p.set_span("T1", regex="text")
        p.set_link("http://example.org", regex="tab")
        return p
    if kind in ("cell", "row", "column") and rng.random() < 0.6:
        # taken from a table: the object knows where it comes from (first row / first column included)
        t = tl.build_table({"rows": [[1, 2, 0, 3], [2, 2, 2, 2], [0, 1, 9, 9]], "cols": [0, 1, 1, 0]}, rng.choice(("max", "none")), rng)
        x, y = rng.choice((0, 0, 1, 3)), rng.choice((0, 0, 1, 2))
        if kind == "cell":
            return t.get_cell((x, y))
        if kind == "row":
            return t.get_row(y)
        return t.get_column(x)
    if kind == "cell":
        return Cell(rng.choice([1, "txt", 2.5, True]), style="ce1", repeated=rng.choice([None, 3]))
    if kind == "row":
        row = tl.make_row([rng.choice([0, 1, 1, 2, 9]) for _ in range(rng.randint(1, 6))], 1, "max", rng)
        list(row.traverse())  # warm caches
        row.get_cell(0)
        return row
    if kind == "column":
        return Column(style="co1", repeated=rng.choice([None, 2]))
    if kind == "frame":
        return Frame.text_frame("inside", size=("2cm", "1cm"), name="fr")
    if kind == "list":
        return List(["a", "b", "c"])
    if kind == "table":
        from .table_driver import rand_state

        t = tl.build_table(rand_state(rng), "rand", rng)
        tl.live_reads(t, [k for k in tl.READ_KINDS if rng.random() < 0.5])
        return t
    src = rng.choice(sample_files())
    if kind == "xmlpart":
        doc = Document(src)
        part = doc.get_part(rng.choice(["content.xml", "styles.xml", "meta.xml"]))
        if rng.random() < 0.7:
            part.root.set_attribute("office:version", "9.9")  # an edit before cloning
        return part
    if kind == "container":
        return Document(io.BytesIO(src.read_bytes())).container
    if kind == "container_path":
        p = tmp / ("c" + src.suffix)
        p.write_bytes(src.read_bytes())
        doc = Document(p)
        if rng.random() < 0.5:
            doc.container.get_part("content.xml")  # some parts read, others not
        return doc.container
    folder = tmp / "c.folder"
    with zipfile.ZipFile(src) as zf:
        zf.extractall(folder)
    return Document(folder).container


def _mutate(obj, rng, k: int) -> None:
    from odfdo import Cell, Column, Paragraph, Row, Table
    from odfdo.container import Container
    from odfdo.xmlpart import XmlPart

    if isinstance(obj, XmlPart):
        obj.root.set_attribute("office:version", f"1.{k}")
    elif isinstance(obj, Container):
        # existing parts only: for a path-backed container get_parts() lists the archive on disk
        # (a documented diagnostic outside the listed properties), so new names would not be observable alike
        names = sorted(n for n in obj.get_parts() if "/" in n and not n.endswith("/") and not n.startswith("META-INF"))
        live = []
        for n in names:
            try:
                if obj.get_part(n) is not None:
                    live.append(n)
            except Exception:  # noqa: BLE001 - already deleted
                continue
        if live and rng.random() < 0.35:
            obj.del_part(rng.choice(live))      # a deletion, before or after the clone is taken
        else:
            obj.set_part(rng.choice(["content.xml", "styles.xml", "meta.xml"]), f"<x>{k}</x>".encode())
    elif isinstance(obj, Table):
        from .table_driver import rand_op

        st = {kk: v for kk, v in tl.xml_project(obj.serialize()).items() if kk in ("rows", "cols")}
        o = rand_op(rng, st)
        if o["op"] in ("csv", "rstrip", "optimize_width", "transpose", "transpose_area", "delete_row", "delete_cell", "delete_column"):
            o = {"op": "append_row", "r": [k % 7 + 1], "n": 1}
        tl.apply_op(obj, o, rng, "rand")
        obj.set_attribute("table:style-name", f"m{k}")
    elif isinstance(obj, Row):
        c = rng.randrange(4)
        if c == 0:
            obj.set_cell(rng.randint(0, obj.width), Cell(k, repeated=rng.choice([None, 2])))
        elif c == 1:
            obj.append_cell(Cell(k))
        elif c == 2:
            obj.insert_cell(rng.randint(0, obj.width), Cell(k))
        else:
            obj.set_value(0, k)
        obj.style = f"m{k}"
    elif isinstance(obj, Cell):
        obj.set_value(k)
        obj.style = f"m{k}"
    elif isinstance(obj, Column):
        obj.style = f"m{k}"
    elif isinstance(obj, Paragraph):
        obj.append_plain_text(f" more {k}")
    else:
        obj.set_attribute("text:style-name", f"m{k}")
        obj.append(Paragraph(f"child {k}"))


def history(seed: int) -> list:
    rng = random.Random(seed)
    ids = Ids()
    tmp = Path(tempfile.mkdtemp(prefix="verif_twin_"))
    kind = KINDS[seed % len(KINDS)]
    events = []
    try:
        a = _make(kind, rng, tmp)
        events.append({"op": "init", "obj": kind, "a": ids(_ser(a))})
        for k in range(rng.randint(0, 2)):
            _mutate(a, rng, 100 + k)
            events.append({"op": "mutate_a", "obj": kind, "a": ids(_ser(a)), "b": 0})
        b = a.clone
        events.append({"op": "clone", "obj": kind, "a": ids(_ser(a)), "b": ids(_ser(b))})
        for k in range(rng.randint(2, 6)):
            side = rng.choice("ab")
            _mutate(a if side == "a" else b, rng, k)
            events.append({"op": "mutate_" + side, "obj": kind, "a": ids(_ser(a)), "b": ids(_ser(b))})
    except Exception as ex:  # noqa: BLE001
        events.append({"op": "exc", "obj": kind, "exc": f"{type(ex).__name__}: {ex}"[:200], "a": 0, "b": 0})
    finally:
        import shutil

        shutil.rmtree(tmp, ignore_errors=True)
    return events


def generate(n: int, seed: int, procs=None) -> list:
    procs = procs or min(16, os.cpu_count() or 4)
    with mp.get_context("fork").Pool(procs) as pool:
        return pool.map(history, [seed * 104_729 + i for i in range(n)], chunksize=max(1, n // (procs * 4)))


def validate(traces: list, timeout: int = 900):
    fd, path = tempfile.mkstemp(prefix="verif_twin_", suffix=".json")
    try:
        with os.fdopen(fd, "w") as f:
            json.dump(traces, f)
        cfg = make_cfg(spec="Spec", invariants=["Report"])
        res = run_tlc("TwinTrace", cfg, workers=1, timeout=timeout, env={"TRACE_FILE": path})
    finally:
        Path(path).unlink(missing_ok=True)
    rep = None
    for p in res.printed:
        if isinstance(p, dict) and "verdicts" in p:
            rep = p
    return res, rep
