"""setup_cmd: parse every specification with SANY and byte-compile the harness.
Builds nothing from the network."""
import compileall
import sys
from pathlib import Path

sys.path.insert(0, str(Path(__file__).resolve().parent.parent))
from harness.tlc import SPEC_DIR, sany  # noqa: E402


def main() -> int:
    bad = 0
    for f in sorted(SPEC_DIR.glob("*.tla")):
        ok, out = sany(f)
        print(("ok   " if ok else "FAIL ") + f.name)
        if not ok:
            print(out[-1500:])
            bad += 1
    root = Path(__file__).resolve().parent.parent
    compileall.compile_dir(str(root / "harness"), quiet=1)
    compileall.compile_dir(str(root / "checks"), quiet=1)
    (root / "evidence").mkdir(exist_ok=True)
    return 1 if bad else 0


if __name__ == "__main__":
    sys.exit(main())
