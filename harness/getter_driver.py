"""C08 driver: call every getter of Table/Row on generated tables, record what
it returned and what happens when the returned objects are mutated; TLC
(spec/GetterTrace.tla) gives each event its verdict."""

from __future__ import annotations

import json
import multiprocessing as mp
import os
import random
import tempfile
from pathlib import Path

from . import tablelib as tl
from .table_driver import rand_op, rand_state
from .tlc import make_cfg, run_tlc

GETTERS = [
    "get_cell", "get_row", "get_column", "get_cells", "cells", "get_rows", "traverse", "rows",
    "get_columns", "traverse_columns", "columns", "get_column_cells",
    "row_get_cell", "row_traverse", "row_cells", "row_get_cells",
]


def cell_h(c):
    return {"x": c.x, "y": c.y, "c": tl.live_cell_code(c)}


def row_h(r):
    p = tl.xml_project("<table:table>" + r.serialize() + "</table:table>")
    return {"y": r.y, "cells": p["rows"][0] if p["rows"] else []}


def col_h(c):
    return {"x": c.x, "c": tl.col_code(c)}


def mutate(obj, rng):
    from odfdo import Cell, Column, Row

    if isinstance(obj, Cell):
        k = rng.randrange(4)
        if k == 0:
            obj.set_value(7)
        elif k == 1:
            obj.style = "zz"
        elif k == 2:
            obj.repeated = 3
        else:
            obj.clear()
            obj.set_attribute("table:style-name", "cleared")
    elif isinstance(obj, Row):
        k = rng.randrange(5)
        if k == 0:
            obj.set_value(0, 7)
        elif k == 1:
            obj.append_cell(Cell(5))
        elif k == 2:
            obj.style = "zz"
        elif k == 3:
            obj.set_cell(1, Cell(6, repeated=2))
        else:
            obj.clear()
            obj.set_attribute("table:style-name", "cleared")
    elif isinstance(obj, Column):
        if rng.random() < 0.5:
            obj.style = "zz"
        else:
            obj.set_attribute("table:default-cell-style-name", "zz")
    else:
        raise TypeError(type(obj))


def one_event(seed: int) -> dict:
    """never raises: an exception of the code under test while preparing the table is itself an event"""
    try:
        return _one_event(seed)
    except Exception as ex:  # noqa: BLE001
        empty = {"rows": [], "cols": []}
        return {"g": {"getter": "setup"}, "pre": empty, "post": empty, "reps": [], "aliased": [], "cross": [],
                "exc": f"during setup (reads / edits before the getter): {type(ex).__name__}: {ex}"[:200]}


def _one_event(seed: int) -> dict:
    rng = random.Random(seed)
    state = rand_state(rng, 4, 5)
    table = tl.build_table(state, rng.choice(("max", "none", "rand")), rng)
    # a short history first, so that caches / layouts come from real edits
    for _ in range(rng.choice((0, 0, 1, 3, 5))):
        st = {k: v for k, v in tl.xml_project(table.serialize()).items() if k in ("rows", "cols")}
        # reads that fill the row / cell caches BEFORE the next mutation
        if rng.random() < 0.6:
            try:
                tl.live_reads(table, [k for k in tl.READ_KINDS if rng.random() < 0.4])
            except Exception:  # noqa: BLE001, S110
                pass
        try:
            tl.apply_op(table, rand_op(rng, st), rng, "rand")
        except Exception:  # noqa: BLE001
            break
    if rng.random() < 0.5:
        tl.live_reads(table, [k for k in tl.READ_KINDS if rng.random() < 0.4])
    proj = tl.xml_project(table.serialize())
    pre = {"rows": proj["rows"], "cols": proj["cols"]}
    h = len(pre["rows"])
    w = len(pre["cols"])
    g = {"getter": rng.choice(GETTERS)}
    y = rng.choice([rng.randint(0, max(0, h - 1)), h, h + 1])
    x = rng.choice([rng.randint(0, max(0, w - 1)), w, w + 1])
    z = x + rng.randint(0, 3)
    t = y + rng.randint(0, 3)
    name = g["getter"]
    ev: dict = {"g": g, "pre": pre}
    flat: list = []  # returned odfdo objects, flattened
    owner = table
    try:
        # a position inside the table may also be given from the end (negative), resolved against the TABLE's size
        nx = x - w if x < w and rng.random() < 0.3 else x
        ny = y - h if y < h and rng.random() < 0.3 else y
        if name == "get_cell":
            # more often than not a cell that has an equal neighbour (stored as a run of two or more by the compressed encodings)
            runs = [(cx, cy) for cy, row in enumerate(pre["rows"]) for cx in range(len(row))
                    if (cx + 1 < len(row) and row[cx + 1] == row[cx]) or (cx > 0 and row[cx - 1] == row[cx])]
            if runs and rng.random() < 0.6:
                x, y = rng.choice(runs)
                nx, ny = x, y
            g.update(x=x, y=y)
            if rng.random() < 0.5:
                # the single-position form: the copy carries no repeat count
                g.update(expand=True)
                o = table.get_cell((nx, ny), keep_repeated=False)
            else:
                o = table.get_cell((nx, ny))
            got = [cell_h(o)]
            flat = [o]
        elif name == "get_row":
            g.update(y=y)
            o = table.get_row(ny)
            got = [row_h(o)]
            flat = [o]
        elif name == "get_column":
            g.update(x=x)
            o = table.get_column(nx)
            got = [col_h(o)]
            flat = [o]
        elif name in ("get_cells", "cells"):
            if name == "get_cells":
                g.update(x=x, y=y, z=z, t=t)
                res = table.get_cells((x, y, z, t))
            else:
                res = table.cells
            got = [[cell_h(c) for c in line] for line in res]
            flat = [c for line in res for c in line]
        elif name in ("get_rows", "traverse", "rows"):
            if name == "get_rows":
                g.update(y=y, t=t)
                res = table.get_rows((y, t))
            elif name == "traverse":
                res = list(table.traverse())
            else:
                res = table.rows
            got = [row_h(r) for r in res]
            flat = list(res)
        elif name in ("get_columns", "traverse_columns", "columns"):
            if name == "get_columns":
                g.update(x=x, z=z)
                res = table.get_columns((x, z))
            elif name == "traverse_columns":
                res = list(table.traverse_columns())
            else:
                res = table.columns
            got = [col_h(c) for c in res]
            flat = list(res)
        elif name == "get_column_cells":
            g.update(x=x)
            res = table.get_column_cells(nx)
            got = [cell_h(c) for c in res]
            flat = list(res)
        else:
            if h == 0:
                y = 0
            else:
                y = rng.randint(0, h - 1)
            g.update(y=y)
            row = table.get_row(y)
            owner = row
            if name == "row_get_cell":
                g.update(x=x)
                o = row.get_cell(x)
                got = [cell_h(o)]
                flat = [o]
            elif name == "row_traverse":
                res = list(row.traverse())
                got = [cell_h(c) for c in res]
                flat = res
            elif name == "row_cells":
                res = row.cells
                got = [cell_h(c) for c in res]
                flat = res
            else:
                g.update(x=x, z=z)
                res = row.get_cells((x, z))
                got = [cell_h(c) for c in res]
                flat = res
        ev["got"] = got
    except Exception as ex:  # noqa: BLE001
        ev["exc"] = f"{type(ex).__name__}: {ex}"[:200]
    proj2 = tl.xml_project(table.serialize())
    ev["post"] = {"rows": proj2["rows"], "cols": proj2["cols"]}
    ev["reps"] = [r for r in (getattr(o, "repeated", None) for o in flat) if r is not None]
    aliased = []
    cross = []
    if flat:
        idxs = list(range(len(flat)))
        rng.shuffle(idxs)
        for i in idxs[:6]:
            before_owner = owner.serialize()
            before_table = table.serialize()
            others = [o.serialize() for o in flat]
            try:
                mutate(flat[i], rng)
            except Exception:  # noqa: BLE001
                continue
            if owner.serialize() != before_owner or table.serialize() != before_table:
                aliased.append(i)
            for j, o in enumerate(flat):
                if j != i and o.serialize() != others[j]:
                    cross.append(i)
                    break
    ev["aliased"] = aliased
    ev["cross"] = cross
    return ev


def generate(n: int, seed: int, procs=None) -> list:
    procs = procs or min(16, os.cpu_count() or 4)
    with mp.get_context("fork").Pool(procs) as pool:
        return pool.map(one_event, [seed * 999_983 + i for i in range(n)], chunksize=max(1, n // (procs * 4)))


def validate(events: list, timeout: int = 900):
    fd, path = tempfile.mkstemp(prefix="verif_getters_", suffix=".json")
    try:
        with os.fdopen(fd, "w") as f:
            json.dump(events, f)
        cfg = make_cfg(spec="Spec", invariants=["Report"])
        res = run_tlc("GetterTrace", cfg, workers=1, timeout=timeout, env={"TRACE_FILE": path}, heap="8g")
    finally:
        Path(path).unlink(missing_ok=True)
    rep = None
    for p in res.printed:
        if isinstance(p, dict) and "verdicts" in p:
            rep = p
    return res, rep
