"""Binding B for Vault.tla: the three vault functions of the real code, observed from outside.

install(events) replaces set_item_in_vault / insert_item_in_vault / delete_item_in_vault in the namespaces of
odfdo.row and odfdo.table (where the callers imported them) by recording wrappers - nothing is changed in /repo.
Each record holds what an independent lxml walk sees before and after the call; spec/VaultTrace.tla judges it."""

from __future__ import annotations

import json
import os
import tempfile
from pathlib import Path

from . import tablelib as tl
from .tlc import make_cfg, run_tlc

T = tl.T
_VALMAP: dict = {}


def _code(key) -> int:
    if key not in _VALMAP:
        _VALMAP[key] = 100 + len(_VALMAP)
    return _VALMAP[key]


def _cell_runs(row_el):
    raw: list = []
    return [[tl.cell_code(c), tl._rep(c, T + "number-columns-repeated", raw)] for c in row_el
            if isinstance(c.tag, str) and c.tag in (T + "table-cell", T + "covered-table-cell")]


def _row_code(row_el) -> int:
    return _code(("row", json.dumps(_cell_runs(row_el)), row_el.get(T + "style-name")))


def _col_code(col_el) -> int:
    return _code(("col", col_el.get(T + "style-name"), col_el.get(T + "default-cell-style-name")))


def _items(el, tag, groups):
    """the items of a vault in document order: direct children, or children of (nested) group elements"""
    for ch in el:
        if not isinstance(ch.tag, str):
            continue
        if ch.tag == tag:
            yield ch
        elif ch.tag in groups:
            yield from _items(ch, tag, groups)


def runs_of(vault, mapname: str) -> list:
    el = vault._Element__element
    raw: list = []
    if mapname == "_rmap":
        return _cell_runs(el)
    if mapname == "_tmap":
        return [[_row_code(r), tl._rep(r, T + "number-rows-repeated", raw)]
                for r in _items(el, T + "table-row", (T + "table-rows", T + "table-header-rows", T + "table-row-group"))]
    return [[_col_code(c), tl._rep(c, T + "number-columns-repeated", raw)]
            for c in _items(el, T + "table-column", (T + "table-columns", T + "table-header-columns", T + "table-column-group"))]


def item_code(item, mapname: str):
    el = item._Element__element
    raw: list = []
    if mapname == "_rmap":
        return tl.cell_code(el), tl._rep(el, T + "number-columns-repeated", raw)
    if mapname == "_tmap":
        return _row_code(el), tl._rep(el, T + "number-rows-repeated", raw)
    return _col_code(el), tl._rep(el, T + "number-columns-repeated", raw)


def install(events: list, limit: int = 200000):
    """Wrap the vault functions where odfdo.row / odfdo.table look them up. Returns an uninstall function."""
    import odfdo.row as row_mod
    import odfdo.table as table_mod

    saved = []

    def make(fn_name, orig):
        kind = fn_name.split("_")[0]          # set / insert / delete

        def wrapper(position, *args, **kwargs):
            rec = None
            try:
                if kind == "delete":
                    vault, mapname = args[0], args[2]
                    rec = {"fn": kind, "pos": position, "v": 0, "n": 1}
                else:
                    item, vault, mapname = args[0], args[1], args[3]
                    v, n = item_code(item, mapname)
                    rec = {"fn": kind, "pos": position, "v": v, "n": n}
                rec["vault"] = mapname
                rec["pre"] = runs_of(vault, mapname)
                if sum(r[1] for r in rec["pre"]) > 400 or len(events) >= limit:
                    rec = None
            except Exception:  # noqa: BLE001 - unusual call shape: not recorded
                rec = None
            try:
                out = orig(position, *args, **kwargs)
            except Exception as ex:
                if rec is not None:
                    rec["exc"] = type(ex).__name__
                    rec["post"] = runs_of(vault, mapname)
                    rec["map"] = []
                    events.append(rec)
                raise
            if rec is not None:
                try:
                    rec["post"] = runs_of(vault, mapname)
                    rec["map"] = list(getattr(vault, mapname))
                    events.append(rec)
                except Exception:  # noqa: BLE001, S110
                    pass
            return out

        return wrapper

    for mod in (row_mod, table_mod):
        for fn_name in ("set_item_in_vault", "insert_item_in_vault", "delete_item_in_vault"):
            if hasattr(mod, fn_name):
                orig = getattr(mod, fn_name)
                saved.append((mod, fn_name, orig))
                setattr(mod, fn_name, make(fn_name, orig))

    def uninstall():
        for mod, fn_name, orig in saved:
            setattr(mod, fn_name, orig)

    return uninstall


def validate(events: list, timeout: int = 1800):
    fd, path = tempfile.mkstemp(prefix="verif_vaulttrace_", suffix=".json")
    try:
        with os.fdopen(fd, "w") as f:
            json.dump(events, f)
        consts = {"Vals": {1}, "MaxRep": 1, "MaxLen": 1, "ResetCache": True, "Dump": False}
        cfg = make_cfg(spec="TSpec", constants=consts, invariants=["Report"])
        res = run_tlc("VaultTrace", cfg, workers=1, timeout=timeout, env={"TRACE_FILE": path}, heap="8g")
    finally:
        Path(path).unlink(missing_ok=True)
    rep = next((p for p in res.printed if isinstance(p, dict) and "verdicts" in p), None)
    return res, rep


def record_random_histories(n: int, steps: int, seed: int) -> list:
    """Random table and row histories (table_driver) in THIS process with the wrappers installed."""
    import random

    from .table_driver import rand_op, rand_row_op, rand_state

    events: list = []
    un = install(events)
    try:
        for i in range(n):
            rng = random.Random(seed * 9973 + i)
            state = rand_state(rng)
            table = tl.build_table(state, rng.choice(("max", "rand", "none")), rng)
            for _ in range(steps):
                try:
                    proj = tl.xml_project(table.serialize())
                    cur = {"rows": proj["rows"], "cols": proj["cols"]}
                    if rng.random() < 0.3:
                        tl.live_reads(table, [k for k in tl.READ_KINDS if rng.random() < 0.3])
                    o = rand_op(rng, cur)
                    if o["op"] in ("csv",):
                        continue
                    tl.apply_op(table, o, rng, "rand")
                except Exception:  # noqa: BLE001 - judged by C01; the history stops
                    break
            row = tl.make_row(rng.choice(state["rows"]) if state["rows"] else [1, 1, 2], 1, "rand", rng)
            for _ in range(steps // 2):
                try:
                    cells = [c for c, k in runs_of(row, "_rmap") for _ in range(k)]
                    tl.apply_row_op(row, rand_row_op(rng, cells), rng)
                except Exception:  # noqa: BLE001
                    break
    finally:
        un()
    return events


def harvest_repo_tests(paths=("tests/table", "tests/test_markdown.py"), timeout=900):
    """The vault calls made while the repository's own table tests run (external plugin, ODFDO_VERIF_VAULT=1)."""
    import subprocess

    from .common import REPO

    fd, path = tempfile.mkstemp(prefix="verif_harvest_vault_", suffix=".ndjson")
    os.close(fd)
    try:
        env = dict(os.environ, ODFDO_VERIF="1", ODFDO_VERIF_VAULT="1", ODFDO_VERIF_TRACE=path,
                   PYTHONPATH=str(Path(__file__).resolve().parent.parent) + os.pathsep + str(REPO / "src"))
        have = [p for p in paths if (REPO / p).exists()]
        r = subprocess.run(["/venv/bin/python", "-m", "pytest", "-q", "-p", "no:cacheprovider", "-p", "harness.pytest_trace_plugin", *have],
                           cwd=REPO, env=env, capture_output=True, text=True, timeout=timeout)
        events = []
        for line in Path(path).read_text().splitlines():
            try:
                ev = json.loads(line)
            except ValueError:
                continue
            if ev.pop("kind", None) == "vault":
                events.append(ev)
        return r.returncode, events, r.stdout[-200:]
    finally:
        Path(path).unlink(missing_ok=True)


def run_vault_trace_part(run, tier):
    events = record_random_histories(150 if tier == "quick" else 3000, 12, run.seed)
    rc, hev, tail = harvest_repo_tests()
    run.notes["vault_calls_recorded"] = len(events)
    run.notes["vault_calls_harvested_from_repo_tests"] = len(hev)
    allev = events + hev
    res, rep = validate(allev)
    run.add_tlc("VaultTrace validation of recorded vault calls", res)
    if rep is None:
        run.machinery("VaultTrace produced no report:\n" + res.stdout[-2000:])
    run.count(len(allev))
    run.validated(len(allev))
    run.notes["vault_trace_diagnostics"] = {"layout_differs": rep["layout_differs"], "map_differs": rep["map_differs"]}
    for e in allev:
        run.klass("vault-call", e["vault"], e["fn"], min(e["n"], 3), "exc" if "exc" in e else "ok")
    for v in rep["verdicts"]:
        e = allev[v["l"] - 1]
        run.violation(f"vault-{v['clause']}|{e['fn']}|{e['vault']}", {"kind": "vault-" + v["clause"], "event": e,
                                                                        "source": "recorded" if v["l"] <= len(events) else "repository-tests"})
