"""Binding of the implementation-shaped Vault.tla to the three vaults of odfdo
(cells of a Row: _rmap, rows of a Table: _tmap, columns of a Table: _cmap).

  1. TLC checks Vault.tla: the incremental map edits keep map = MapOf(runs),
     no run is empty, reads through map + cache are true, and the run-level
     operations refine the sequence operations of Grid.tla.
  2. TLC dumps every mutation edge (pre runs, op, post runs, post map) of a
     bounded instance.
  3. Random walks through that graph are executed on ONE live object per walk
     and vault, public reads being interleaved so that the object caches are
     filled before the next mutation.  After every step:
       verdict  xml    independent expansion of the serialized XML == Expand(post)
       verdict  live   every position read through the public API == that expansion
       diagnostic      run layout of the XML == post runs,  internal map == spec map
     Layout and internal map are implementation detail: a divergence is counted
     in the evidence and never raised (the property is about what a caller sees).
"""

from __future__ import annotations

import json
import random
from collections import defaultdict

from lxml import etree

from . import tablelib as tl
from .tlc import make_cfg, run_tlc

INVARIANTS = ["MapIsMapOfRuns", "NoEmptyRun", "ReadsAreTrue"]
TNS = "urn:oasis:names:tc:opendocument:xmlns:table:1.0"


def model_check(constants, reset=True, workers=16, timeout=1200):
    c = dict(constants, ResetCache=reset, Dump=False)
    cfg = make_cfg(spec="Spec", constants=c, invariants=INVARIANTS, properties=["Refines"], view="View")
    return run_tlc("Vault", cfg, workers=workers, timeout=timeout)


def dump(constants, timeout=1200):
    c = dict(constants, ResetCache=True, Dump=True)
    cfg = make_cfg(spec="Spec", constants=c, invariants=INVARIANTS, action_constraints=["Emit"], view="View")
    res = run_tlc("Vault", cfg, workers=1, timeout=timeout)
    return res, [p for p in res.printed if isinstance(p, dict) and "pre" in p]


def rkey(runs) -> str:
    return json.dumps([[r["v"], r["n"]] for r in runs], separators=(",", ":"))


def expand(runs) -> list:
    out = []
    for r in runs:
        out.extend([r["v"]] * r["n"])
    return out


# ------------------------------------------------------------ the three vaults
class CellsVault:
    name = "cells"
    mapname = "_rmap"

    def new(self):
        from odfdo import Element

        return Element.from_tag("<table:table-row/>")

    def apply(self, obj, o):
        k = o["op"]
        if k == "set":
            obj.set_cell(o["pos"], tl.make_cell(o["v"], o["n"]))
        elif k == "insert":
            obj.insert_cell(o["pos"], tl.make_cell(o["v"], o["n"]))
        elif k == "delete":
            obj.delete_cell(o["pos"])
        else:
            obj.append_cell(tl.make_cell(o["v"], o["n"]))

    def xml_runs(self, obj):
        root = tl.parse_wrapped(obj.serialize())
        row = root if root.tag == f"{{{TNS}}}table-row" else root.find(f".//{{{TNS}}}table-row")
        raw = []
        return [[tl.cell_code(c), tl._rep(c, tl.T + "number-columns-repeated", raw)] for c in row if c.tag.endswith("}table-cell")]

    def read(self, obj, pos):
        return tl.live_cell_code(obj.get_cell(pos))

    def length(self, obj):
        return obj.width


class RowsVault:
    name = "rows"
    mapname = "_tmap"

    def new(self):
        from odfdo import Element

        return Element.from_tag('<table:table table:name="T"/>')

    def apply(self, obj, o):
        k = o["op"]
        if k == "set":
            obj.set_row(o["pos"], tl.make_row([o["v"]], o["n"]))
        elif k == "insert":
            obj.insert_row(o["pos"], tl.make_row([o["v"]], o["n"]))
        elif k == "delete":
            obj.delete_row(o["pos"])
        else:
            obj.append_row(tl.make_row([o["v"]], o["n"]))

    def xml_runs(self, obj):
        root = tl.parse_wrapped(obj.serialize())
        t = root if root.tag == f"{{{TNS}}}table" else root.find(f".//{{{TNS}}}table")
        raw = []
        out = []
        for r in t:
            if r.tag.endswith("}table-row"):
                cells = [c for c in r if c.tag.endswith("}table-cell")]
                out.append([tl.cell_code(cells[0]) if cells else 0, tl._rep(r, tl.T + "number-rows-repeated", raw)])
        return out

    def read(self, obj, pos):
        return tl.live_cell_code(obj.get_row(pos).get_cell(0))

    def length(self, obj):
        return obj.height


class ColsVault:
    name = "cols"
    mapname = "_cmap"

    def new(self):
        from odfdo import Element

        return Element.from_tag('<table:table table:name="T"/>')

    def apply(self, obj, o):
        k = o["op"]
        if k == "set":
            obj.set_column(o["pos"], tl.make_column(o["v"], o["n"]))
        elif k == "insert":
            obj.insert_column(o["pos"], tl.make_column(o["v"], o["n"]))
        elif k == "delete":
            obj.delete_column(o["pos"])
        else:
            obj.append_column(tl.make_column(o["v"], o["n"]))

    def xml_runs(self, obj):
        root = tl.parse_wrapped(obj.serialize())
        t = root if root.tag == f"{{{TNS}}}table" else root.find(f".//{{{TNS}}}table")
        raw = []
        out = []
        for c in t:
            if c.tag.endswith("}table-column"):
                s = c.get(f"{{{TNS}}}style-name") or ""
                out.append([int(s[2:]) if s.startswith("co") else 0, tl._rep(c, tl.T + "number-columns-repeated", raw)])
        return out

    def read(self, obj, pos):
        s = obj.get_column(pos).style or ""
        return int(s[2:]) if s.startswith("co") else 0

    def length(self, obj):
        return obj.width


VAULTS = (CellsVault(), RowsVault(), ColsVault())


def walks(edges, nwalks=300, depth=10, seed=0):
    """-> (mismatches, stats).  A mismatch: dict(kind=xml|live|exc, vault, op, ...)."""
    by_pre = defaultdict(list)
    for e in edges:
        by_pre[rkey(e["pre"])].append(e)
    out = []
    stats = defaultdict(int)
    for v in VAULTS:
        for w in range(nwalks):
            rng = random.Random(seed * 1000003 + w)
            obj = v.new()
            cur = "[]"
            path = []
            for _ in range(depth):
                cands = by_pre.get(cur)
                if not cands:
                    break
                e = rng.choice(cands)
                o = e["op"]
                path.append(o)
                # cache-filling public reads before the mutation
                n = sum(r["n"] for r in e["pre"])
                for pos in range(n):
                    if rng.random() < 0.5:
                        try:
                            v.read(obj, pos)
                        except Exception:  # noqa: BLE001 - judged after the step
                            pass
                stats["steps"] += 1
                try:
                    v.apply(obj, o)
                except Exception as ex:  # noqa: BLE001
                    out.append({"kind": "exc", "vault": v.name, "op": o, "path": list(path), "got": type(ex).__name__})
                    break
                want = expand(e["post"])
                try:
                    xr = v.xml_runs(obj)
                except Exception as ex:  # noqa: BLE001
                    out.append({"kind": "xml", "vault": v.name, "op": o, "path": list(path), "got": f"unparsable {ex}"})
                    break
                got = [c for c, n_ in xr for _ in range(n_)]
                if got != want:
                    out.append({"kind": "xml", "vault": v.name, "op": o, "path": list(path), "got": got, "want": want})
                    break
                try:
                    live = [v.read(obj, p) for p in range(len(got))]
                    ln = v.length(obj)
                except Exception as ex:  # noqa: BLE001
                    live, ln = f"raised {type(ex).__name__}", None
                if live != got or ln != len(got):
                    out.append({"kind": "live", "vault": v.name, "op": o, "path": list(path), "got": [live, ln], "want": got})
                    break
                if xr != [[r["v"], r["n"]] for r in e["post"]]:
                    stats["layout_differs"] += 1
                else:
                    stats["layout_equal"] += 1
                try:
                    same_map = list(getattr(obj, v.mapname)) == list(e["map"])
                except Exception:  # noqa: BLE001 - the map is an internal of the library: absent is not a finding
                    stats["map_unavailable"] += 1
                else:
                    stats["map_equal" if same_map else "map_differs"] += 1
                cur = rkey(e["post"])
    return out, dict(stats)


def run_vault_part(run, tier, verdict_kinds):
    """Model-check Vault.tla, dump, walk; mismatches of the given kinds are violations."""
    big = {"Vals": {1, 2}, "MaxRep": 3, "MaxLen": 6 if tier == "quick" else 7}
    r = model_check(big)
    run.add_tlc("Vault", r, constants=big)
    if not r.ok:
        run.violation(f"model|Vault|{r.violated}", {"stdout_tail": r.stdout[-3000:]})
    # sensitivity: without the cache reset TLC must find the stale read
    r2 = model_check({"Vals": {1, 2}, "MaxRep": 2, "MaxLen": 4}, reset=False)
    if r2.ok or r2.violated != "ReadsAreTrue":
        run.machinery("Vault.tla without cache reset should violate ReadsAreTrue")
    small = {"Vals": {1, 2}, "MaxRep": 3, "MaxLen": 5 if tier == "quick" else 6}
    res, edges = dump(small)
    run.add_tlc("Vault(dump)", res, constants=small)
    mism, stats = walks(edges, nwalks=300 if tier == "quick" else 3000, depth=10 if tier == "quick" else 14, seed=run.seed)
    run.count(stats.get("steps", 0))
    run.coverage["vault_edges_dumped"] = len(edges)
    run.validated(stats.get("steps", 0))
    run.notes["vault_walks"] = stats
    for v in VAULTS:
        run.klass("vault", v.name)
    for e in edges:
        run.klass("vault-op", e["op"]["op"], len(e["pre"]), e["op"].get("n", 1))
    for m in mism:
        if m["kind"] in verdict_kinds or m["kind"] == "exc":
            run.violation(f"{m['kind']}|vault-{m['op']['op']}|{m['vault']}", m)
    return mism, stats
