"""C15 driver: call every read-only entry point (introspected + curated) on
real documents, twice, and record the identity of every part of the document
before and after (PackageTrace.tla, op "pure")."""

from __future__ import annotations

import inspect
import io
import multiprocessing as mp
import os
import random
import re

from . import odftext
from .pkg_driver import Ids, TEMPLATES, generated_document, part_ids, sample_files

XML_NAMES = ("content.xml", "styles.xml", "meta.xml", "settings.xml", "META-INF/manifest.xml")

# names of methods/properties that only report (classification kept here for review)
READ_PREFIX = ("get_", "is_", "to_", "as_", "search", "match", "text_", "show_", "count")
READ_EXACT = {
    "serialize", "clone", "children", "parent", "root", "text", "tail", "text_content", "inner_text", "text_recursive", "attributes", "tag",
    "document_body", "tables", "headers", "paragraphs", "spans", "lists", "frames", "images", "sections", "tocs", "toc", "size", "width",
    "height", "name", "style", "rows", "columns", "cells", "value", "type", "values", "iter_values", "traverse", "traverse_columns",
    "parts", "mimetype", "language", "title", "description", "subject", "creator", "keyword", "statistic", "generator", "body", "meta",
    "styles", "content", "manifest", "repeated", "formula", "currency", "string", "float", "int", "decimal", "bool", "date", "datetime",
    "duration", "level", "family", "display_name", "parent_style", "path", "template", "auto_reload", "hyperlink_behaviour",
    "initial_creator", "creation_date", "editing_cycles", "editing_duration", "user_defined_metadata", "print_date", "printed_by",
    "notes", "annotations", "bookmarks", "links", "variable_sets", "user_fields", "draw_pages", "named_ranges", "dc_creator", "dc_date",
}
# never called: they are documented as modifying, or need arguments that make them writes
WRITE_RE = re.compile(r"^(set_|add_|insert|append|delete|del_|clear|remove|replace|save|strip|extend|rstrip|optimize|transpose|fill|"
                      r"merge|update|push|pop|sort|reverse|move|apply|make_|new_|create|from_|register|open|load|parse|write|fix_|"
                      r"unset|toggle|increment|expand|minimized_width|force_width|last_cell|xpath$|get_style_contexts$)")


# getters whose docstring says they CREATE what they do not find
DOCUMENTED_WRITES = {"get_variable_decls", "get_user_field_decls"}


def is_read_name(name: str) -> bool:
    if name.startswith("_") or WRITE_RE.search(name) or name in DOCUMENTED_WRITES:
        return False
    return name in READ_EXACT or name.startswith(READ_PREFIX)


def snapshot(doc, ids: Ids) -> dict:
    """identity of every XML part (strict) + every binary part, through the public API"""
    out = {}
    for name in XML_NAMES:
        try:
            data = doc.get_part(name).serialize()
            out[name] = ids(odftext.digest(odftext.strict_form(data)))
        except Exception as ex:  # noqa: BLE001
            out[name] = ids("exc:" + type(ex).__name__)
    return out


def stable(v):
    """a comparable rendering of an answer"""
    from odfdo import Element

    if isinstance(v, Element):
        return "E:" + v.serialize()
    if isinstance(v, (list, tuple)):
        return [stable(x) for x in v]
    if isinstance(v, dict):
        return {str(k): stable(x) for k, x in sorted(v.items(), key=lambda kv: str(kv[0]))}
    if inspect.isgenerator(v) or hasattr(v, "__next__"):
        return [stable(x) for x in v]
    if isinstance(v, (str, int, float, bool, bytes, type(None))):
        return v
    r = repr(v)
    return re.sub(r" at 0x[0-9a-f]+", "", r)


def targets(doc):
    """objects of the document whose read-only API is exercised"""
    out = [("Document", lambda: doc), ("Body", lambda: doc.body), ("Meta", lambda: doc.meta), ("Styles", lambda: doc.styles),
           ("Content", lambda: doc.content), ("Manifest", lambda: doc.manifest)]
    body = doc.body
    for label, q in (("Table", "descendant::table:table"), ("Row", "descendant::table:table-row"), ("Cell", "descendant::table:table-cell"),
                     ("Paragraph", "descendant::text:p"), ("Header", "descendant::text:h"), ("Frame", "descendant::draw:frame"),
                     ("List", "descendant::text:list"), ("TOC", "descendant::text:table-of-content"), ("Span", "descendant::text:span"),
                     ("Note", "descendant::text:note"), ("Section", "descendant::text:section"), ("DrawPage", "descendant::draw:page")):
        found = body.get_elements(q)
        if found:
            out.append((label, lambda q=q: doc.body.get_elements(q)[0]))
            # ... and the richest element of the kind (most descendants: notes, frames, spans inside), and one more
            sizes = [len(e.get_elements("descendant::*")) for e in found[:400]]
            k = max(range(len(sizes)), key=lambda i: sizes[i])
            if k != 0:
                out.append((label, lambda q=q, k=k: doc.body.get_elements(q)[k]))
            j = (len(found) * 2) // 3
            if j not in (0, k):
                out.append((label, lambda q=q, j=j: doc.body.get_elements(q)[j]))
    return out


_CURRENT_DOC: list = [None]     # the document of the history being run (for the questions asked to the Document about a table)


def _doc_of(_obj):
    return _CURRENT_DOC[0]


CURATED = [
    ("Document", "get_formatted_text()", lambda d: d.get_formatted_text()),
    ("Document", "get_formatted_text(rst)", lambda d: d.get_formatted_text(rst_mode=True)),
    ("Document", "to_markdown()", lambda d: d.to_markdown()),
    ("Document", "get_formated_meta()", lambda d: d.get_formated_meta()),
    ("Document", "get_styles()", lambda d: d.get_styles()),
    ("Document", "get_styles(paragraph)", lambda d: d.get_styles("paragraph")),
    ("Document", "get_style(paragraph, Standard)", lambda d: d.get_style("paragraph", "Standard")),
    ("Document", "show_styles()", lambda d: d.show_styles()),
    ("Document", "get_parts()", lambda d: sorted(d.get_parts())),
    ("Document", "str()", lambda d: str(d)),
    ("Document", "repr()", lambda d: repr(d)),
    ("Body", "replace(pattern) count", lambda b: b.replace("e")),
    ("Body", "replace(pattern, formatted) count", lambda b: b.replace("e", formatted=True)),
    ("Body", "replace(space pattern, formatted) count", lambda b: b.replace(" ", formatted=True)),
    ("Paragraph", "replace(formatted) count", lambda p: p.replace("a", formatted=True)),
    ("Header", "replace(formatted) count", lambda p: p.replace("a", formatted=True)),
    ("Span", "replace(formatted) count", lambda p: p.replace("a", formatted=True)),
    ("Table", "get_columns(range)", lambda t: t.get_columns((1, 2))),
    ("Table", "get_columns(B:C)", lambda t: t.get_columns("B:C")),
    ("Table", "get_columns(last)", lambda t: t.get_columns((max(0, t.width - 1), t.width))),
    ("Table", "traverse_columns(1,3)", lambda t: list(t.traverse_columns(start=1, end=3))),
    ("Table", "traverse_columns(2,)", lambda t: list(t.traverse_columns(start=2))),
    ("Table", "get_rows(range)", lambda t: t.get_rows((1, 2))),
    ("Table", "traverse(1,2)", lambda t: list(t.traverse(start=1, end=2))),
    ("Table", "get_cells(area)", lambda t: t.get_cells((1, 1, 3, 3))),
    ("Table", "get_cells(flat)", lambda t: t.get_cells(flat=True)),
    ("Table", "get_values(flat)", lambda t: t.get_values(flat=True)),
    ("Table", "Document.get_cell_style_properties(beyond)", lambda t: _doc_of(t).get_cell_style_properties(t.name, (t.width + 3, 0))),
    ("Table", "Document.get_cell_background_color(beyond)", lambda t: _doc_of(t).get_cell_background_color(t.name, (t.width + 1, max(0, t.height - 1)))),
    ("Table", "Document.get_cell_style_properties(A1)", lambda t: _doc_of(t).get_cell_style_properties(t.name, "A1")),
    ("Table", "get_values(cell_type)", lambda t: t.get_values(cell_type="all", complete=False)),
    ("Table", "get_column_cells(1)", lambda t: t.get_column_cells(1)),
    ("Table", "get_column_values(last)", lambda t: t.get_column_values(max(0, t.width - 1))),
    ("Table", "get_row_values(last)", lambda t: t.get_row_values(max(0, t.height - 1))),
    ("Table", "get_named_ranges", lambda t: t.get_named_ranges()),
    ("Table", "rows", lambda t: t.rows),
    ("Table", "columns", lambda t: t.columns),
    ("Table", "cells", lambda t: t.cells),
    ("Row", "traverse(1,2)", lambda r: list(r.traverse(start=1, end=2))),
    ("Row", "get_cells(range)", lambda r: r.get_cells((1, 2))),
    ("Row", "get_values(range)", lambda r: r.get_values((1, 3))),
    # ranged reads starting at EVERY position (a range may begin inside, or on the last item of, a repeated run)
    ("Row", "get_values(every range)", lambda r: [r.get_values((s, s + 2)) for s in range(min(r.width, 12) + 1)]),
    ("Row", "get_cells(every range)", lambda r: [r.get_cells((s, s + 1)) for s in range(min(r.width, 12) + 1)]),
    ("Row", "traverse(every start)", lambda r: [list(r.traverse(start=s, end=s + 1)) for s in range(min(r.width, 12) + 1)]),
    ("Table", "get_rows(every range)", lambda t: [t.get_rows((s, s + 1)) for s in range(min(t.height, 12) + 1)]),
    ("Table", "traverse(every start)", lambda t: [list(t.traverse(start=s, end=s + 2)) for s in range(min(t.height, 12) + 1)]),
    ("Table", "get_columns(every range)", lambda t: [t.get_columns((s, s + 1)) for s in range(min(t.width, 12) + 1)]),
    ("Table", "traverse_columns(every start)", lambda t: [list(t.traverse_columns(start=s, end=s + 2)) for s in range(min(t.width, 12) + 1)]),
    ("Table", "get_cells(every area)", lambda t: [t.get_cells((s, s, s + 2, s + 2)) for s in range(min(t.width, t.height, 8) + 1)]),
    ("Table", "get_values(every area)", lambda t: [t.get_values((s, s, s + 2, s + 2)) for s in range(min(t.width, t.height, 8) + 1)]),
    ("Body", "get_named_ranges()", lambda b: b.get_named_ranges()),
    ("Body", "get_named_range(nr)", lambda b: b.get_named_range("nr")),
    ("Body", "named range values", lambda b: [r.get_values() for r in b.get_named_ranges()]),
    ("Body", "search", lambda b: b.search("e")),
    ("Body", "search_all", lambda b: b.search_all("a")),
    ("Body", "search_first", lambda b: b.search_first("a")),
    ("Body", "match", lambda b: b.match("the")),
    ("Body", "get_elements(//text:p)", lambda b: b.get_elements("//text:p")),
    ("Body", "get_paragraphs(content)", lambda b: b.get_paragraphs(content="a")),
    ("Body", "get_formatted_text", lambda b: b.get_formatted_text({"document": None, "footnotes": [], "endnotes": [], "annotations": [], "rst_mode": False, "img_counter": 0, "images": [], "no_img_level": 0})),
    ("Body", "str()", lambda b: str(b)),
    ("Body", "serialize(pretty)", lambda b: b.serialize(pretty=True)),
    ("Meta", "as_dict()", lambda m: m.as_dict()),
    ("Meta", "as_dict(full)", lambda m: m.as_dict(True)),
    ("Meta", "as_json()", lambda m: m.as_json()),
    ("Meta", "as_text()", lambda m: m.as_text()),
    ("Meta", "serialize(pretty)", lambda m: m.serialize(pretty=True)),
    ("Content", "pretty_serialize", lambda c: c.pretty_serialize()),
    ("Styles", "pretty_serialize", lambda c: c.pretty_serialize()),
    ("Table", "get_values()", lambda t: t.get_values()),
    ("Table", "get_values(area)", lambda t: t.get_values("A1:C3")),
    ("Table", "get_cells()", lambda t: t.get_cells()),
    ("Table", "get_cell(A1)", lambda t: t.get_cell("A1")),
    ("Table", "get_value(B2)", lambda t: t.get_value("B2")),
    ("Table", "get_row(0)", lambda t: t.get_row(0)),
    ("Table", "get_row_values(0)", lambda t: t.get_row_values(0)),
    ("Table", "get_column(0)", lambda t: t.get_column(0)),
    ("Table", "get_column_values(0)", lambda t: t.get_column_values(0)),
    ("Table", "get_rows(content)", lambda t: t.get_rows(content="a")),
    ("Table", "to_csv()", lambda t: t.to_csv()),
    ("Table", "str()", lambda t: str(t)),
    ("Table", "is_empty()", lambda t: t.is_empty()),
    ("Table", "get_formatted_text(rst)", lambda t: t.get_formatted_text({"document": None, "footnotes": [], "endnotes": [], "annotations": [], "rst_mode": True, "img_counter": 0, "images": [], "no_img_level": 0})),
    ("Table", "get_values beyond", lambda t: t.get_values((0, 0, 60, 60))),
    ("Table", "get_cell far", lambda t: t.get_cell((40, 40))),
    ("Table", "get_row far", lambda t: t.get_row(60)),
    # questions about what lies just at / beyond the end of the table
    ("Table", "get_row_values(height)", lambda t: t.get_row_values(t.height)),
    ("Table", "get_row_values(height+3)", lambda t: t.get_row_values(t.height + 3)),
    ("Table", "is_row_empty(height)", lambda t: t.is_row_empty(t.height)),
    ("Table", "is_row_empty(height+2)", lambda t: t.is_row_empty(t.height + 2, aggressive=True)),
    ("Table", "get_row_sub_elements(height)", lambda t: t.get_row_sub_elements(t.height)),
    ("Table", "get_row(height)", lambda t: t.get_row(t.height)),
    ("Table", "get_column_values(width)", lambda t: t.get_column_values(t.width)),
    ("Table", "is_column_empty(width)", lambda t: t.is_column_empty(t.width)),
    ("Table", "get_column(width)", lambda t: t.get_column(t.width)),
    ("Table", "get_column_cells(width+1)", lambda t: t.get_column_cells(t.width + 1)),
    ("Table", "get_cell(width,height)", lambda t: t.get_cell((t.width, t.height))),
    ("Table", "get_value(width,height)", lambda t: t.get_value((t.width, t.height))),
    ("Table", "get_values(cell_type)", lambda t: t.get_values(cell_type="all", complete=False)),
    ("Table", "get_values(get_type)", lambda t: t.get_values(get_type=True, flat=True)),
    ("Table", "iter_values()", lambda t: list(t.iter_values())),
    ("Table", "get_cells(style)", lambda t: t.get_cells(style="ce1", flat=True)),
    ("Table", "get_columns(style)", lambda t: t.get_columns(style="co1")),
    ("Table", "get_rows(style)", lambda t: t.get_rows(style="ro1")),
    ("Row", "get_values(cell_type)", lambda r: r.get_values(cell_type="all", complete=False, get_type=True)),
    ("Row", "get_sub_elements()", lambda r: r.get_sub_elements()),
    ("Row", "last_cell()", lambda r: r.last_cell()),
    ("Row", "get_values()", lambda r: r.get_values()),
    ("Row", "get_cell(0)", lambda r: r.get_cell(0)),
    ("Row", "get_cells()", lambda r: r.get_cells()),
    ("Row", "is_empty()", lambda r: r.is_empty()),
    ("Row", "get_cell far", lambda r: r.get_cell(50)),
    ("Paragraph", "str()", lambda p: str(p)),
    ("Paragraph", "get_formatted_text", lambda p: p.get_formatted_text()),
    ("Paragraph", "search", lambda p: p.search("a")),
    ("Paragraph", "replace count", lambda p: p.replace("a")),
    ("Header", "str()", lambda p: str(p)),
    ("TOC", "get_formatted_text", lambda t: t.get_formatted_text()),
    ("TOC", "str", lambda t: str(t)),
    ("List", "get_formatted_text", lambda t: t.get_formatted_text()),
    ("Frame", "str", lambda t: str(t)),
    ("Note", "str", lambda t: str(t)),
]


def catalogue(label, obj):
    """(name, callable) pairs: introspected read-only members + curated calls"""
    out = []
    cls = type(obj)
    for name in sorted(dir(cls)):
        if not is_read_name(name):
            continue
        attr = inspect.getattr_static(cls, name, None)
        if isinstance(attr, property):
            out.append((f"{label}.{name}", lambda o, n=name: getattr(o, n)))
        elif callable(attr) or isinstance(attr, (staticmethod, classmethod)):
            try:
                fn = getattr(obj, name)
                sig = inspect.signature(fn)
            except (TypeError, ValueError, AttributeError):
                continue
            if all(p.default is not p.empty or p.kind in (p.VAR_POSITIONAL, p.VAR_KEYWORD) for p in sig.parameters.values()):
                out.append((f"{label}.{name}()", lambda o, n=name: getattr(o, n)()))
    for lab, nm, fn in CURATED:
        if lab == label:
            out.append((f"{label}:{nm}", fn))
    return out


def generated_sheet(rng):
    """A spreadsheet as another producer may write it, PARSED FROM BYTES: outlined rows, header rows, and named ranges whose
    base cell is not the first cell of the range (the name was defined with the cursor elsewhere)."""
    from odfdo import Document, Element

    from . import tablelib as tl
    from .table_driver import rand_state

    doc = Document("spreadsheet")
    body = doc.body
    body.clear()
    for i in range(2):
        st = rand_state(rng, 5, 5)
        body.append(Element.from_tag(tl.table_xml(st, "rand", rng, name=f"S{i}")))
    body.append(Element.from_tag(
        '<table:named-expressions>'
        '<table:named-range table:name="nr" table:base-cell-address="$S0.$B$2" table:cell-range-address="$S0.$A$1:.$C$3"/>'
        '<table:named-range table:name="nr2" table:base-cell-address="$S1.$C$1" table:cell-range-address="$S1.$B$2"/>'
        '</table:named-expressions>'))
    buf = io.BytesIO()
    doc.save(buf)
    buf.seek(0)
    return Document(buf)


def history(args) -> list:
    seed, src, max_calls = args
    from odfdo import Document

    rng = random.Random(seed)
    ids = Ids()
    if src == "generated":
        doc = generated_document(rng)
    elif src == "generated-sheet":
        doc = generated_sheet(rng)
    elif src in TEMPLATES:
        doc = Document(src)
    else:
        doc = Document(io.BytesIO(open(src, "rb").read())) if rng.random() < 0.5 else Document(src)
    # bounded table sizes: skip huge sheets
    try:
        for t in doc.body.get_elements("descendant::table:table"):
            if t.height * max(1, t.width) > 2500:
                t.delete()
    except Exception:  # noqa: BLE001, S110
        pass
    _CURRENT_DOC[0] = doc
    before = snapshot(doc, ids)
    events = [{"op": "open", "src": os.path.basename(str(src)), "how": "pure", "mem": {}, "mf": []}]
    calls = []
    for label, getter in targets(doc):
        try:
            obj = getter()
        except Exception:  # noqa: BLE001
            continue
        for name, fn in catalogue(label, obj):
            calls.append((label, getter, name, fn))
    # every curated call (they carry the arguments that matter: ranges, formatted=True ...) + a sample of the introspected ones
    curated = [c for c in calls if ":" in c[2]]
    others = [c for c in calls if ":" not in c[2]]
    rng.shuffle(others)
    chosen = curated + others[:max_calls]
    rng.shuffle(chosen)
    for label, getter, name, fn in chosen:
        ev = {"op": "pure", "name": name, "target": label}
        try:
            r1 = stable(fn(getter()))
            ok1 = True
        except Exception as ex:  # noqa: BLE001
            r1 = "EXC:" + type(ex).__name__
            ok1 = False
        try:
            r2 = stable(fn(getter()))
        except Exception as ex:  # noqa: BLE001
            r2 = "EXC:" + type(ex).__name__
        after = snapshot(doc, ids)
        ev.update(before=before, after=after, same=(r1 == r2), raised=not ok1)
        events.append(ev)
        before = after
    return events


def generate(ndocs: int, seed: int, max_calls: int = 60, procs=None, all_samples: bool = False) -> list:
    rng = random.Random(seed)
    srcs = ["generated", "generated-sheet"] + list(TEMPLATES) + [str(p) for p in sample_files()]
    if not all_samples:
        rng.shuffle(srcs)
        srcs = srcs[:ndocs]
    else:
        srcs = srcs * max(1, ndocs // len(srcs))
    jobs = [(seed * 31 + i, s, max_calls) for i, s in enumerate(srcs)]
    procs = procs or min(16, os.cpu_count() or 4)
    with mp.get_context("fork").Pool(procs) as pool:
        return pool.map(history, jobs, chunksize=1)
