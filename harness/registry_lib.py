"""C12: extract the element registry from the working tree, generate
RegistryData for TLC, and build instances of every class with generated
constructor arguments."""

from __future__ import annotations

import ast
import inspect
import random
import sys
from datetime import datetime, timedelta

from lxml import etree


def dom(v) -> str:
    """a value in the string domain of Registry.tla's property codec"""
    if v is None:
        return "<none>"
    if v is True:
        return "<True>"
    if v is False:
        return "<False>"
    return str(v)


def registrations():
    """[(tag, class name)] for every register_element_class(_list) call, in
    module import order then source order (AST of the imported odfdo modules)."""
    import odfdo  # noqa: F401

    out = []
    for modname, mod in list(sys.modules.items()):
        if not modname.startswith("odfdo") or mod is None:
            continue
        try:
            src = inspect.getsource(mod)
        except (OSError, TypeError):
            continue
        tree = ast.parse(src)
        for node in tree.body:
            if not (isinstance(node, ast.Expr) and isinstance(node.value, ast.Call)):
                continue
            call = node.value
            fn = getattr(call.func, "id", "")
            if fn not in ("register_element_class", "register_element_class_list"):
                continue
            try:
                cls = eval(ast.unparse(call.args[0]), vars(mod))  # noqa: S307
                if fn == "register_element_class":
                    out.append((cls._tag, cls.__name__))
                else:
                    for t in eval(ast.unparse(call.args[1]), vars(mod)):  # noqa: S307
                        out.append((t, cls.__name__))
            except Exception:  # noqa: BLE001, S112
                continue
    return out


def classes():
    """classes that register a tag (winners of the live registry AND classes whose registration lost): name -> class"""
    import odfdo  # noqa: F401
    from odfdo.element import _class_registry

    out = {c.__name__: c for c in _class_registry.values()}
    for _t, cname in registrations():
        if cname not in out:
            for mod in list(sys.modules.values()):
                c = getattr(mod, cname, None) if mod is not None and getattr(mod, "__name__", "").startswith("odfdo") else None
                if isinstance(c, type):
                    out[cname] = c
                    break
    return out


def live_registry():
    from odfdo.element import _class_registry

    return {str(k): v.__name__ for k, v in _class_registry.items()}


def registry_data_module() -> tuple[str, dict]:
    regs = registrations()
    cls = classes()
    own = sorted({(c.__name__, c._tag) for c in cls.values() if getattr(c, "_tag", None)})
    props = sorted({(c.__name__, p.name, p.attr) for c in cls.values() for p in getattr(c, "_properties", ())})

    def q(s):
        return '"' + s.replace("\\", "\\\\").replace('"', '\\"') + '"'

    text = (
        "---- MODULE RegistryData ----\n\\* GENERATED from the working tree by harness/registry_lib.py at run time\nEXTENDS Registry\n"
        "RegisteredData == <<" + ", ".join(f"<<{q(t)}, {q(c)}>>" for t, c in regs) + ">>\n"
        "OwnTagData == {" + ", ".join(f"<<{q(c)}, {q(t)}>>" for c, t in own) + "}\n"
        "PropsData == {" + ", ".join(f"<<{q(c)}, {q(n)}, {q(a)}>>" for c, n, a in props) + "}\n====\n"
    )
    return text, {"registrations": len(regs), "classes": len(cls), "own_tags": len(own), "properties": len(props)}


# ---------------------------------------------------------------- instances
STRS = ["v", "two words", "é<&>\"'", "true", "false", "Name_1", "#ff0000", "1.5cm", "0"]


def gen_arg(rng, name: str, ann: str, default):
    a = ann.replace(" ", "")
    lname = name.lower()
    if lname in ("xml_id", "id") or lname.endswith("_id"):
        return rng.choice(["id1", "Obj_2"])      # NCName
    if "bool" in a and "str" not in a:
        return rng.choice([True, False])
    if a.startswith("int") or a in ("int|None", "Optional[int]"):
        return rng.choice([0, 1, 2, 3, 10])
    if "datetime" in a:
        return datetime(2024, 2, 29, 12, 30, 15)
    if "timedelta" in a:
        return timedelta(hours=1, seconds=5)
    if "tuple" in a and ("size" in lname or "position" in lname):
        return ("1cm", "2cm")
    if lname == "crange":
        return rng.choice(["B2:D5", "A1", "C3:C3", "A1:B2"])
    if lname == "table_name":
        return rng.choice(["Sheet1", "two words", "FY'.24", "a'.b'.c", "dot.ted", "it's", "x.'y"])
    if lname == "family":
        return rng.choice(["paragraph", "text", "table-cell", "graphic", "section", "table-row"])
    if "element" in a.lower() and "str" in a and rng.random() < 0.5:
        from odfdo import Paragraph

        return Paragraph(rng.choice(["element body", "two  spaces"]))      # the documented "str or element" form
    if "str" in a or default is None or isinstance(default, str):
        if "color" in lname:
            return rng.choice(["#ff0000", "red"])
        if lname in ("size", "width", "height", "x", "y", "x1", "y1", "x2", "y2", "rx", "ry"):
            return rng.choice(["1cm", "2.5cm"])
        if "url" in lname or "href" in lname:
            return "http://example.org/a?b=1&c=2"
        return rng.choice(STRS)
    return default


def build_instance(cls, rng):
    """(instance, kwargs actually used) - kwargs are reduced until the constructor accepts them"""
    try:
        sig = inspect.signature(cls.__init__)
    except (TypeError, ValueError):
        return cls(), {}
    cand = {}
    for name, p in sig.parameters.items():
        if name in ("self", "kwargs", "args", "tag", "tag_or_elem") or p.kind in (p.VAR_POSITIONAL, p.VAR_KEYWORD):
            continue
        if p.default is p.empty:
            cand[name] = gen_arg(rng, name, str(p.annotation), None)
        elif rng.random() < 0.6:
            cand[name] = gen_arg(rng, name, str(p.annotation), p.default)
    required = {n for n, p in sig.parameters.items() if p.default is p.empty and n in cand}
    if cls.__name__ == "NamedRange":
        # (all three are needed together, and the name has its own rules)
        cand["name"] = rng.choice(["v", "Name_1", "range_a"])
        cand["crange"] = gen_arg(rng, "crange", "str", None)
        cand["table_name"] = gen_arg(rng, "table_name", "str", None)
        required |= {"name", "crange", "table_name"}
    kwargs = dict(cand)
    for _ in range(12):
        try:
            return cls(**kwargs), kwargs
        except Exception:  # noqa: BLE001
            optional = [k for k in kwargs if k not in required]
            if not optional:
                break
            kwargs.pop(rng.choice(optional))
    try:
        return cls(), {}
    except Exception:  # noqa: BLE001
        return None, {}


def c14n(xml: str) -> bytes:
    from . import tablelib as tl

    root = tl.parse_wrapped(xml)
    return etree.tostring(root[0], method="c14n")


# constructor arguments that share a name with a property but are documented as something else, or that only act together
# with another argument (each checked in the source)
ARG_BY_DESIGN = {("Cell", "currency"), ("Cell", "text"), ("Cell", "value"), ("Cell", "cell_type"), ("Reference", "ref_format"), ("Table", "print_ranges"),
                 ("Table", "protection_key"), ("VarSet", "display"), ("VarSet", "text"), ("Annotation", "parent"), ("Style", "area"),
                 ("IndexTitle", "title_text_style"),
                 ("NamedRange", "crange"), ("NamedRange", "usage")}      # (kept as a tuple of numbers; a closed list of usages)

# properties whose value is the position of the element in its tree, by definition
CONTEXTUAL = {"parent", "root", "document_body", "is_bound", "clone", "children", "tail", "text_recursive", "x", "y", "tracked_changes"}


def _show(v) -> str:
    from odfdo import Element

    if isinstance(v, Element):
        return "E:" + v.serialize()[:200]
    if isinstance(v, (list, tuple)):
        return "[" + ",".join(_show(i) for i in list(v)[:8]) + "]"
    if isinstance(v, dict):
        return "{" + ",".join(f"{k}:{_show(v[k])}" for k in sorted(v, key=str)[:8]) + "}"
    return repr(v)[:200]


NOT_PLAIN = {"tag", "tail", "text", "text_content", "repeated", "value", "formula", "type", "clone", "parent", "root", "children"}


def stale_after_set(cls, xml: str, rng) -> list:
    """Every settable string property: read it, assign the value another instance of the class carries, then the value read on
    the same object must be the value read from its serialisation parsed afresh (no answer kept from before the assignment)."""
    from odfdo import Element

    out = []
    try:
        other, _kw = build_instance(cls, random.Random(rng.random()))
    except Exception:  # noqa: BLE001
        return out
    if other is None:
        return out
    for n, m in inspect.getmembers(cls, lambda m: isinstance(m, property)):
        if n.startswith("_") or m.fset is None or n in NOT_PLAIN or n in CONTEXTUAL:
            continue
        try:
            new = getattr(other, n)
            obj = Element.from_tag(xml)
            old = getattr(obj, n)            # the read that may leave something behind
        except Exception:  # noqa: BLE001
            continue
        if not isinstance(new, str) or not new or not isinstance(old, str) or new == old:
            continue
        try:
            setattr(obj, n, new)
            direct = getattr(obj, n)
            again = getattr(Element.from_tag(obj.serialize()), n)
        except Exception:  # noqa: BLE001 - a refused value is not this clause's business
            continue
        if direct != again:
            out.append({"name": n, "was": old[:40], "set": new[:40], "read_on_object": repr(direct)[:60], "read_after_reparse": repr(again)[:60]})
    return out


def context_reads(cls, xml: str, alone, rng) -> list:
    """Every public property of the instance, read on the element parsed alone and on the same element parsed as
    the SECOND of two instances of its class inside one parent (the first built with other arguments)."""
    from odfdo import Element

    names = sorted(n for n, m in inspect.getmembers(cls, lambda m: isinstance(m, property)) if not n.startswith("_") and n not in CONTEXTUAL)
    try:
        other, _kw = build_instance(cls, random.Random(rng.random()))
        holder = Element.from_tag("<office:text/>")
        if other is not None:
            first = Element.from_tag(other.serialize())
            for el in [first, *first.get_elements("descendant::*")]:
                if el.get_attribute("xml:id") is not None:
                    el.del_attribute("xml:id")      # two equal xml:id in one tree are not well formed
            holder.append(first)
        holder.append(Element.from_tag(xml))
        target = Element.from_tag(holder.serialize()).children[-1]
    except Exception as ex:  # noqa: BLE001
        return [{"name": "<context>", "alone": "built", "inside": "exc:" + type(ex).__name__}]
    out = []
    for n in names:
        try:
            a = _show(getattr(alone, n))
        except Exception as ex:  # noqa: BLE001
            a = "exc:" + type(ex).__name__
        try:
            b = _show(getattr(target, n))
        except Exception as ex:  # noqa: BLE001
            b = "exc:" + type(ex).__name__
        if a != b:
            out.append({"name": n, "alone": a, "inside": b})
    return out


def record(cname: str, seed: int) -> dict:
    from odfdo import Element

    rng = random.Random(seed)
    cls = classes()[cname]
    rec: dict = {"class": cname}
    try:
        obj, kwargs = build_instance(cls, rng)
        if obj is None:
            rec["exc"] = "constructor"
            return rec
        rec["kwargs"] = {k: repr(v)[:40] for k, v in kwargs.items()}
        rec["tag"] = obj.tag
        # every argument that has a public property of its own name must be readable through it (str / bool / int values)
        seen = []
        pnames = {n for n, m in inspect.getmembers(cls, lambda m: isinstance(m, property))}
        for k, v in kwargs.items():
            # (strings and booleans are judged through the generic properties below, with their codec; 0 and 1 are
            # the defaults of counters and levels and may legitimately read back as None)
            # (the arguments of Style apply to some families only - documented; they are judged by the sibling clause)
            strarg = isinstance(v, str) and v not in ("", "true", "false") and (cname, k) not in ARG_BY_DESIGN and cname != "Style"
            if k in pnames and ((isinstance(v, int) and not isinstance(v, bool) and v >= 2) or strarg):
                try:
                    got = getattr(obj, k)
                except Exception as ex:  # noqa: BLE001
                    got = "exc:" + type(ex).__name__
                if not (got == v or str(got) == str(v)):
                    seen.append({"arg": k, "given": repr(v)[:60], "read": repr(got)[:60]})
        # plain attributes of the argument's name (set by the constructor, derived again from the XML on a re-parse)
        try:
            again_obj = Element.from_tag(obj.serialize())
        except Exception:  # noqa: BLE001
            again_obj = None
        for k, v in kwargs.items():
            if k in pnames or not isinstance(v, str) or v in ("", "true", "false") or (cname, k) in ARG_BY_DESIGN or cname == "Style":
                continue
            if k in getattr(obj, "__dict__", {}):
                got = obj.__dict__[k]
                back = getattr(again_obj, "__dict__", {}).get(k, "<no such attribute>") if again_obj is not None else "<not re-parsed>"
                if got != v or back != v:
                    seen.append({"arg": k, "given": repr(v)[:60], "read": repr(got)[:60] + " / re-parsed " + repr(back)[:60]})
        rec["args_read"] = seen
        if rng.random() < 0.3 and cname not in ("Table", "Row", "Column", "Cell", "NamedRange"):
            # mixed content: white space alone between two children is content (XML infoset), whatever the class
            a, b = Element.from_tag("<text:span>a</text:span>"), Element.from_tag("<text:span>b</text:span>")
            obj.append(a)
            a.tail = rng.choice([" ", "  ", "\n "])
            obj.append(b)
            rec["mixed"] = True
        xml = obj.serialize()
        try:
            canon = c14n(xml)
            rec["wellformed"] = True
        except etree.XMLSyntaxError:
            canon = b""
            rec["wellformed"] = False
        back = Element.from_tag(xml)
        rec["reparsed_class"] = type(back).__name__
        rec["infoset_equal"] = rec["wellformed"] and c14n(back.serialize()) == canon
        # access paths: the element inside a parent, reached in several ways
        paths = []
        holder = Element.from_tag("<office:text/>")
        holder.append(Element.from_tag(xml))
        q = obj.tag
        for label, fn in (("children", lambda: holder.children[0]), ("get_elements", lambda: holder.get_elements("descendant::" + q)[0]),
                          ("xpath", lambda: holder.xpath("descendant::" + q)[0]), ("get_element", lambda: holder.get_element("descendant::" + q)),
                          ("clone", lambda: holder.children[0].clone), ("parent-child", lambda: holder.children[0].parent.children[0])):
            try:
                paths.append({"path": label, "class": type(fn()).__name__})
            except Exception as ex:  # noqa: BLE001
                paths.append({"path": label, "class": "exc:" + type(ex).__name__})
        rec["paths"] = paths
        props = []
        for p in getattr(cls, "_properties", ()):
            family_ok = not p.family or getattr(obj, "family", None) == p.family
            given = "<absent>"
            if p.name in kwargs and isinstance(kwargs[p.name], (str, bool)) and family_ok:
                given = dom(kwargs[p.name])
            after = dom(getattr(obj, p.name))
            reparsed = dom(getattr(back, p.name))
            entry = {"name": p.name, "given": given, "after": after, "reparsed": reparsed, "set": "<absent>", "after_set": "<absent>"}
            if family_ok and rng.random() < 0.5:
                new = rng.choice([None, True, False, "x", "two words", "true", "é&<"])
                if p.attr == "xml:id" and new is not None:
                    new = "x"      # NCName
                try:
                    clone = Element.from_tag(xml)
                    setattr(clone, p.name, new)
                    entry["set"] = dom(new)
                    entry["after_set"] = dom(getattr(Element.from_tag(clone.serialize()), p.name))
                    direct = dom(getattr(clone, p.name))
                    if direct != entry["after_set"]:
                        entry["after_set"] = "direct:" + direct + "|reparsed:" + entry["after_set"]
                except Exception as ex:  # noqa: BLE001
                    entry["after_set"] = "exc:" + type(ex).__name__
            props.append(entry)
        rec["props"] = props
        rec["stale"] = stale_after_set(cls, xml, rng)
        rec["context"] = context_reads(cls, xml, back, rng)
    except Exception as ex:  # noqa: BLE001
        rec["exc"] = f"{type(ex).__name__}: {ex}"[:120]
    return rec


SIDES = ("top", "right", "bottom", "left")


def sibling_argument_effects() -> list:
    """Constructor arguments that come in four sides (padding_top/right/bottom/left, border_...): given ALONE, either each
    of them changes the element or none does (the group does not apply to that family).  Returns the odd ones out."""
    rng = random.Random(5)
    out = []
    for cname, cls in sorted(classes().items()):
        try:
            sig = inspect.signature(cls.__init__)
        except (TypeError, ValueError):
            continue
        params = {n: p for n, p in sig.parameters.items() if n not in ("self", "kwargs", "args", "tag", "tag_or_elem") and p.kind not in (p.VAR_POSITIONAL, p.VAR_KEYWORD)}
        stems = sorted({n.rsplit("_", 1)[0] for n in params if n.rsplit("_", 1)[-1] in SIDES and all(f"{n.rsplit('_', 1)[0]}_{s}" in params for s in SIDES)})
        if not stems:
            continue
        req = {n: gen_arg(rng, n, str(p.annotation), None) for n, p in params.items() if p.default is p.empty}
        fams = [None]
        if "family" in params:
            fams = ["paragraph", "text", "table-cell", "table-row", "table-column", "table", "graphic", "page-layout", "section"]
        for fam in fams:
            base_kw = dict(req)
            if fam:
                base_kw["family"] = fam
            try:
                base = cls(**base_kw).serialize()
            except Exception:  # noqa: BLE001
                continue
            for stem in stems:
                eff = {}
                for side in SIDES:
                    try:
                        eff[side] = cls(**{**base_kw, f"{stem}_{side}": "0.5cm"}).serialize() != base
                    except Exception as ex:  # noqa: BLE001
                        eff[side] = "exc:" + type(ex).__name__
                if len({repr(v) for v in eff.values()}) > 1:
                    out.append({"class": cname, "family": fam, "group": stem, "effect_alone": eff})
    return out


# arguments whose documented values are an enumeration of the standard (ODF 1.2 part 1; independent lists, not read from the
# library's tables): every value given to the constructor is the value of the attribute, of the property, and comes back
# from a re-parse
ENUM_ARGS = [
    ("Reference", ("refname",), "ref_format", "text:reference-format",
     ["page", "chapter", "direction", "text", "category-and-value", "caption", "value", "number", "number-no-superior", "number-all-superior"]),
    ("Note", (), "note_class", "text:note-class", ["footnote", "endnote"]),
    ("VarPageNumber", (), "select_page", "text:select-page", ["previous", "current", "next"]),
    ("Frame", (), "anchor_type", "text:anchor-type", ["page", "frame", "paragraph", "char", "as-char"]),
]


def enumerated_argument_values() -> list:
    import odfdo
    from odfdo import Element

    out = []
    for cname, pos, arg, attr, values in ENUM_ARGS:
        cls = getattr(odfdo, cname, None) or classes().get(cname)
        if cls is None:
            continue
        for v in values:
            rec = {"class": cname, "arg": arg, "value": v}
            try:
                obj = cls(*pos, **{arg: v})
                again = Element.from_tag(obj.serialize())
                got = {"attribute": obj.get_attribute(attr), "property": getattr(obj, arg, v), "reparsed": again.get_attribute(attr)}
            except Exception as ex:  # noqa: BLE001
                got = {"exc": f"{type(ex).__name__}: {ex}"[:120]}
            if any(str(x) != v for x in got.values()):
                out.append({**rec, "got": {k: str(x) for k, x in got.items()}})
    return out
