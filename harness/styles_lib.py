"""Binding for Styles.tla: style populations <-> real documents."""

from __future__ import annotations

import io
import json
import os
import tempfile
from pathlib import Path

from lxml import etree

from .tlc import make_cfg, run_tlc

NS = {
    "office": "urn:oasis:names:tc:opendocument:xmlns:office:1.0",
    "style": "urn:oasis:names:tc:opendocument:xmlns:style:1.0",
}
ST = "{%s}" % NS["style"]
CONTAINERS = {
    "c.fonts": ("content.xml", "office:font-face-decls"),
    "c.auto": ("content.xml", "office:automatic-styles"),
    "s.fonts": ("styles.xml", "office:font-face-decls"),
    "s.styles": ("styles.xml", "office:styles"),
    "s.auto": ("styles.xml", "office:automatic-styles"),
    "s.master": ("styles.xml", "office:master-styles"),
}
MODEL_FAMILIES = {"paragraph", "text", "table-cell", "table", "master-page", "font-face", "page-layout"}


def style_xml(s: dict) -> str:
    k, f, n = s["kind"], s["family"], s["name"]
    if k == "default":
        return f'<style:default-style style:family="{f}"/>'
    if k == "master":
        return f'<style:master-page style:name="{n}" style:page-layout-name="L"/>'
    if k == "font":
        return f'<style:font-face style:name="{n}" svg:font-family="{n}"/>'
    if k == "layout":
        return f'<style:page-layout style:name="{n}"/>'
    return f'<style:style style:name="{n}" style:family="{f}"/>'


def build(state: dict, kind: str = "text"):
    """A real document whose six containers hold exactly the given population."""
    from odfdo import Document, Element

    doc = Document(kind)
    for c, (part, q) in CONTAINERS.items():
        el = doc.get_part(part).get_element("//" + q)
        if el is None:
            continue
        for ch in list(el.children):
            el.delete(ch)
        for s in state[c]:
            el.append(Element.from_tag(style_xml(s)))
    return doc


def auto_index(name: str) -> int:
    """index of an automatic name odfdo_auto_<digits>, 0 otherwise (independent of odfdo)"""
    pre = "odfdo_auto_"
    if name.startswith(pre) and name[len(pre):].isdigit():
        return int(name[len(pre):])
    return 0


def classify(el, container: str) -> dict | None:
    s = _classify(el, container)
    if s is not None:
        s["ai"] = auto_index(s["name"])
    return s


def _classify(el, container: str) -> dict | None:
    tag = etree.QName(el).localname
    name = el.get(ST + "name") or ""
    if tag == "default-style":
        return {"kind": "default", "family": el.get(ST + "family") or "", "name": ""}
    if tag == "master-page":
        return {"kind": "master", "family": "master-page", "name": name}
    if tag == "font-face":
        return {"kind": "font", "family": "font-face", "name": name}
    if tag == "page-layout":
        return {"kind": "layout", "family": "page-layout", "name": name}
    if tag == "style":
        return {"kind": "auto" if container.endswith("auto") else "common", "family": el.get(ST + "family") or "", "name": name}
    return None


def project(doc, families=MODEL_FAMILIES) -> dict:
    """Independent walk (lxml) of the six containers of the live document."""
    out = {}
    for c, (part, q) in CONTAINERS.items():
        root = etree.fromstring(doc.get_part(part).serialize())
        items = []
        for cont in root.iter("{%s}%s" % (NS["office"], q.split(":")[1])):
            for ch in cont:
                if not isinstance(ch.tag, str):
                    continue
                s = classify(ch, c)
                if s is not None and s["family"] in families:
                    items.append(s)
            break
        out[c] = items
    return out


def locate(doc, style_el) -> list:
    """[container, 1-based position among the model's families] of a style element of the live document, or ["", 0]."""
    if style_el is None:
        return ["", 0]
    target = style_el._Element__element
    for c, (part, q) in CONTAINERS.items():
        cont = doc.get_part(part).get_element("//" + q)
        if cont is None:
            continue
        pos = 0
        for ch in cont._Element__element:
            if not isinstance(ch.tag, str):
                continue
            s = classify(ch, c)
            if s is None or s["family"] not in MODEL_FAMILIES:
                continue
            pos += 1
            if ch is target:
                return [c, pos]
    return ["?", 0]


def make_style(family: str, name: str):
    from odfdo import Element, Style

    if family == "font-face":
        return Element.from_tag(f'<style:font-face style:name="{name}" svg:font-family="{name}"/>')
    if family == "master-page":
        return Style("master-page", name=name, page_layout="L")
    if name:
        return Style(family, name=name)
    return Style(family)


def do_insert(doc, o: dict) -> dict:
    """insert_style + lookups; returns the observation fields of the event"""
    from odfdo import Document

    obs: dict = {}
    # the name is carried by the style itself or ("set on the fly") by the name argument, the style then having
    # no name of its own or another one; "via" is chosen by the caller of do_insert (recorded in the event)
    via = o.get("via", "own")
    try:
        if via == "refamily" and o["name"] and o["family"] in ("paragraph", "text", "table-cell", "table"):
            # a style object made for another family, looked at, then given its family: what is inserted is the object as it now is
            st = make_style("text" if o["family"] != "text" else "paragraph", o["name"])
            _ = (st.family, repr(st), str(st.family))
            st.family = o["family"]
            ret = doc.insert_style(st, automatic=o["automatic"], default=o["default"])
        elif via == "own" or not o["name"] or o["family"] == "font-face":
            st = make_style(o["family"], o["name"])
            ret = doc.insert_style(st, automatic=o["automatic"], default=o["default"])
        else:
            st = make_style(o["family"], "" if via == "arg" else "previous name")
            ret = doc.insert_style(st, name=o["name"], automatic=o["automatic"], default=o["default"])
        obs["ret"] = ret if ret is not None else ""
        obs["ret_ai"] = auto_index(obs["ret"])
        found = doc.get_style(o["family"], obs["ret"] if obs["ret"] else None)
        obs["found"] = locate(doc, found)
    except Exception as ex:  # noqa: BLE001
        obs["exc"] = f"{type(ex).__name__}: {ex}"[:200]
        obs["ret"] = ""
        obs["ret_ai"] = 0
    return obs


def reloaded_lookup(doc, o: dict, ret: str) -> list:
    from odfdo import Document

    buf = io.BytesIO()
    doc.save(buf)
    buf.seek(0)
    d2 = Document(buf)
    return locate(d2, d2.get_style(o["family"], ret if ret else None))


def validate(traces: list, timeout: int = 900):
    fd, path = tempfile.mkstemp(prefix="verif_styles_", suffix=".json")
    try:
        with os.fdopen(fd, "w") as f:
            json.dump(traces, f)
        cfg = make_cfg(spec="Spec", invariants=["Report"])
        res = run_tlc("StylesTrace", cfg, workers=1, timeout=timeout, env={"TRACE_FILE": path}, heap="8g")
    finally:
        Path(path).unlink(missing_ok=True)
    rep = None
    for p in res.printed:
        if isinstance(p, dict) and "verdicts" in p:
            rep = p
    return res, rep


def harvest_repo_style_tests(paths=("tests/style", "tests/test_document.py", "tests/test_use_case2.py", "tests/test_use_case3.py"), timeout=900):
    """Every Document.insert_style made while the repository's own tests run (external plugin), as one-event traces."""
    import subprocess

    from .common import REPO

    fd, path = tempfile.mkstemp(prefix="verif_harvest_styles_", suffix=".ndjson")
    os.close(fd)
    try:
        env = dict(os.environ, ODFDO_VERIF="1", ODFDO_VERIF_STYLES="1", ODFDO_VERIF_TRACE=path,
                   PYTHONPATH=str(Path(__file__).resolve().parent.parent) + os.pathsep + str(REPO / "src"))
        have = [p for p in paths if (REPO / p).exists()]
        r = subprocess.run(["/venv/bin/python", "-m", "pytest", "-q", "-p", "no:cacheprovider", "-p", "harness.pytest_trace_plugin", *have],
                           cwd=REPO, env=env, capture_output=True, text=True, timeout=timeout)
        events = []
        for line in Path(path).read_text().splitlines():
            try:
                ev = json.loads(line)
            except ValueError:
                continue
            if ev.pop("kind", None) == "style" and "post" in ev:
                events.append(ev)
        return r.returncode, events, r.stdout[-200:]
    finally:
        Path(path).unlink(missing_ok=True)


DATA_NS = "{urn:oasis:names:tc:opendocument:xmlns:datastyle:1.0}"
STYLE_NAME = "{urn:oasis:names:tc:opendocument:xmlns:style:1.0}name"
DATA_FAMILIES = {"number-style": "number", "currency-style": "currency", "percentage-style": "percentage", "time-style": "time", "boolean-style": "boolean"}


def data_styles(doc) -> list:
    """(part, container, tag, name) of the number / currency / percentage / time / boolean styles, read with lxml from the
    serialised parts"""
    out = []
    for part in ("styles.xml", "content.xml"):
        root = etree.fromstring(doc.get_part(part).serialize())
        for e in root.iter():
            if isinstance(e.tag, str) and e.tag.startswith(DATA_NS) and e.tag[len(DATA_NS):] in DATA_FAMILIES and e.get(STYLE_NAME):
                out.append((part, etree.QName(e.getparent()).localname, e.tag[len(DATA_NS):], e.get(STYLE_NAME)))
    return out


def merged_data_styles_ok(doc, other) -> list:
    """after doc.merge_styles_from(other): every data style of `other` is found again in `doc` under its family and name,
    and sits once in the container it was merged into; returns the list of what is wrong"""
    wrong = []
    mine = data_styles(doc)
    for part, cont, tag, name in data_styles(other):
        n = sum(1 for x in mine if x == (part, cont, tag, name))
        if n != 1:
            wrong.append(f"{tag} {name}: {n} in {part} {cont}")
        try:
            found = doc.get_style(DATA_FAMILIES[tag], name)
        except Exception as ex:  # noqa: BLE001
            found = None
            wrong.append(f"{tag} {name}: lookup raised {type(ex).__name__}")
        if found is None:
            wrong.append(f"{tag} {name}: not found by get_style({DATA_FAMILIES[tag]!r}, name)")
    return wrong
