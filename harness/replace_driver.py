"""C16 driver: count / replace / search on API-built paragraphs with markup."""

from __future__ import annotations

import json
import os
import random
import re
import tempfile
from pathlib import Path

from . import markup_lib as ml
from .para_lib import chars, cps
from .tlc import make_cfg, run_tlc

WORDS = ["ab", "a", "ba", "aab", "c d", "x<y", "q&r", "é", "中", "it's", "two  spaces", "tab\there", "nl\nhere", " lead", "trail ",
         "a\u00a0b", "wide\u2003 gap", "thin\u202fa"]      # blanks of Unicode that are not XML white space: ordinary characters
NEWS = ["", "x", " ", "  ", "\t", "a\nb", "x  y", " z ", "éa", "&<", "n\u00a0b", "\u2003 "]
REGEXES = ["a+", "[ab]", "a|b", "ab?", "^a", "b$", "[a-c]+", r"\s", "a.", r"\w+", "(a)(b)?"]


def build(rng, with_links=True):
    from odfdo import Header, Paragraph

    text = " ".join(rng.choice(WORDS) for _ in range(rng.randint(1, 4)))
    if with_links and rng.random() < 0.15:
        # a link as a loaded document may hold it: white-space elements inside the link, text after it
        T, E = (lambda s: {"k": "t", "s": cps(s)}), (lambda g, n=0: {"k": "e", "tag": g, "n": n})
        toks = [T(rng.choice(["x ", "ab ", ""]))] if rng.random() < 0.7 else []
        toks += [{"k": "o", "tag": "a"}, T(rng.choice(["two", "a", "ab"])), E("s", rng.choice([1, 2, 3])), T(rng.choice(["words", "b", "a"]))]
        if rng.random() < 0.5:
            toks += [E("tab"), T("col2")]
        toks += [{"k": "c"}, T(rng.choice([" tail ab", "ab", " a b a"]))]
        return ml.build([t for t in toks if t["k"] != "t" or t["s"]], "Paragraph" if rng.random() < 0.7 else "Header")
    par = Paragraph(text) if rng.random() < 0.7 else Header(1, text)
    for _ in range(rng.randint(0, 3)):
        tokens = ml.project(par)
        total = sum(len(t["s"]) for t in tokens if t["k"] == "t")
        o = {"op": "wrap_offset", "tag": rng.choice(["span", "a"] if with_links else ["span"]), "off": rng.randint(0, max(0, total - 1)), "len": rng.randint(1, 3)}
        try:
            ml.apply(par, o, tokens)
        except Exception:  # noqa: BLE001, S110
            pass
    if rng.random() < 0.3:
        try:
            par.set_bookmark("bk", position=rng.randint(0, 3))
        except Exception:  # noqa: BLE001, S110
            pass
    return par


def slot_spans(tokens, cre):
    return [[[m.start(), m.end()] for m in cre.finditer(chars(t["s"])) if m.end() > m.start()] for t in tokens if t["k"] == "t"]


def event(seed: int) -> list:
    rng = random.Random(seed)
    kind = rng.choice(["count", "replace", "replace", "replace_fmt", "replace_fmt", "search"])
    par = build(rng, with_links=(kind != "replace_fmt"))
    tokens = ml.project(par)
    slots = [t["s"] for t in tokens if t["k"] == "t"]
    o: dict = {}
    if rng.random() < 0.6 and slots:
        s = rng.choice(slots)
        a = rng.randrange(len(s))
        p = s[a: a + rng.randint(1, 2)]
        o["p"] = p
        rx = re.escape(chars(p))
    else:
        rx = rng.choice(REGEXES)
    o["rx"] = rx
    cre = re.compile(rx)
    ev = {"pre": tokens, "op": o, "spans": slot_spans(tokens, cre)}
    try:
        if kind == "count":
            o["op"] = "count"
            ev["ret"] = par.replace(rx)
        elif kind in ("replace", "replace_fmt"):
            o["op"] = "replace"
            o["formatted"] = kind == "replace_fmt"
            new = rng.choice(NEWS)
            o["new"] = cps(new)
            # a replacement string is taken literally: escape what re.sub would interpret
            if rng.random() < 0.25:
                # the same replacement through the odfdo-replace command's function: document saved, replaced, saved, reopened
                from odfdo import Document
                from odfdo.scripts.replace import search_replace

                o["via"] = "script"
                doc = Document("text")
                doc.body.clear()
                doc.body.append(par)
                tmpd = tempfile.mkdtemp(prefix="verif_replace_")
                try:
                    src, dst = os.path.join(tmpd, "in.odt"), os.path.join(tmpd, "out.odt")
                    doc.save(src)
                    search_replace(rx, new.replace("\\", "\\\\"), src, dst, o["formatted"])
                    out = Document(dst)
                    par = out.body.get_elements("text:p|text:h")[0]
                    ev["ret"] = 0
                finally:
                    import shutil

                    shutil.rmtree(tmpd, ignore_errors=True)
            else:
                ev["ret"] = par.replace(rx, new.replace("\\", "\\\\"), formatted=o["formatted"])
        else:
            o["op"] = "search"
            ev["linkfree"] = not any(t["k"] == "o" and t["tag"] == "a" for t in tokens)
            tgt = par
            subs = par.get_elements("descendant::text:span|descendant::text:a")
            if subs and rng.random() < 0.4:
                # the same calls on an inline element of the paragraph: its own text includes its tail
                tgt = rng.choice(subs)
                o["on"] = "inline"
                ev["linkfree"] = False     # the clauses stated on the whole paragraph do not apply
            own = tgt.text_recursive
            ev["own"] = cps(own)
            if tgt is par and not ev["linkfree"]:
                ev["url"] = cps("http://example.org/")      # the address of every link the builders make
            found = []
            for s, e in tgt.search_all(rx):
                found.append({"s": s, "e": e, "text": cps(tgt.text_at(s, e))})
            # text_at for arbitrary integers (end = -1 stands for "no end given")
            n_own = len(own)
            ev["slices"] = []
            for _ in range(3):
                s0 = rng.randint(-3, n_own + 2)
                e0 = rng.choice([None, rng.randint(0, n_own + 3), rng.randint(0, n_own + 3)])
                ev["slices"].append({"s": s0, "e": -1 if e0 is None else e0, "text": cps(tgt.text_at(s0) if e0 is None else tgt.text_at(s0, e0))})
            first = tgt.search_first(rx)
            pos = tgt.search(rx)
            ev["found"] = found
            ev["first_ok"] = bool((first is None and not found) or (first is not None and found and list(first) == [found[0]["s"], found[0]["e"]] and pos == first[0]))
            ev["match_ok"] = bool(tgt.match(rx) == bool(found))
            # the matched texts, as Python's re finds them in the element's own text
            ev["expect"] = [[m.start(), m.end()] for m in re.finditer(rx, own)]
    except Exception as ex:  # noqa: BLE001
        ev["exc"] = f"{type(ex).__name__}: {ex}"[:160]
        ev.setdefault("ret", -1)
        ev.setdefault("found", [])
        ev.setdefault("own", [])
        ev.setdefault("linkfree", False)
    ev["post"] = ml.project(par)
    return [ev]


def validate(traces: list, timeout: int = 900):
    fd, path = tempfile.mkstemp(prefix="verif_replace_", suffix=".json")
    try:
        with os.fdopen(fd, "w") as f:
            json.dump(traces, f)
        cfg = make_cfg(spec="Spec", invariants=["Report"])
        res = run_tlc("ReplaceTrace", cfg, workers=1, timeout=timeout, env={"TRACE_FILE": path}, heap="8g")
    finally:
        Path(path).unlink(missing_ok=True)
    rep = None
    for p in res.printed:
        if isinstance(p, dict) and "verdicts" in p:
            rep = p
    return res, rep
