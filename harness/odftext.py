"""Independent readers of ODF XML (lxml only, no odfdo code):

 * collapse(): the white-space processing of ODF 1.2 part 1, section 6.1.2,
   over the stream of character data and inline elements of a paragraph
   (element-aware reading, see DESIGN C05),
 * plain(): concatenation of the character data with text:s / text:tab /
   text:line-break expanded and NO collapsing,
 * loose_form(): what must be equal between a plain and a pretty-printed
   serialisation of the same document (C11).
"""

from __future__ import annotations

import hashlib

from lxml import etree

TEXT_NS = "urn:oasis:names:tc:opendocument:xmlns:text:1.0"
OFFICE_NS = "urn:oasis:names:tc:opendocument:xmlns:office:1.0"
TX = "{%s}" % TEXT_NS
S_TAG, TAB_TAG, LB_TAG = TX + "s", TX + "tab", TX + "line-break"
P_TAGS = (TX + "p", TX + "h")
# elements whose own content is not part of the enclosing paragraph's text
OPAQUE = (TX + "note", OFFICE_NS.join("{}") + "annotation", TX + "tracked-changes")
WS = " \t\r\n"


def stream(el, skip_opaque: bool = True):
    """Yield ('chars', str) and ('elem', tag, element) items of the content of
    `el` in document order; spans/links etc. are transparent."""
    if el.text:
        yield ("chars", el.text)
    for ch in el:
        if not isinstance(ch.tag, str):
            if ch.tail:
                yield ("chars", ch.tail)
            continue
        if ch.tag in (S_TAG, TAB_TAG, LB_TAG):
            yield ("elem", ch.tag, ch)
        elif skip_opaque and _is_object(ch):
            # notes, annotations, frames / text boxes ...: their paragraphs are
            # texts of their own, not part of the enclosing paragraph
            yield ("elem", ch.tag, ch)
        else:
            yield from stream(ch, skip_opaque)
        if ch.tail:
            yield ("chars", ch.tail)


def _is_object(el) -> bool:
    """Inside a paragraph: an element that is an object of its own (note,
    annotation, frame, shape, anything outside the text: namespace or holding
    paragraphs) and not a run of the paragraph's text."""
    return el.tag in OPAQUE or not el.tag.startswith(TX) or _holds_paragraphs(el)


def _holds_paragraphs(el) -> bool:
    for tag in P_TAGS:
        if next(el.iter(tag), None) is not None:
            return True
    return False


def spaces_of(el) -> int:
    c = el.get(TX + "c")
    if c is None:
        return 1
    try:
        return int(c)
    except ValueError:
        return 1


def collapse(el, skip_opaque: bool = True) -> str:
    """Text of a paragraph-like element as an ODF consumer sees it."""
    out: list[str] = []
    prev_space = True  # leading white space of the paragraph is dropped
    pending_trailing = 0
    for item in stream(el, skip_opaque):
        if item[0] == "chars":
            for c in item[1]:
                if c in WS:
                    if not prev_space:
                        out.append(" ")
                        prev_space = True
                else:
                    out.append(c)
                    prev_space = False
        else:
            tag = item[1]
            if tag == S_TAG:
                out.append("\x00" * spaces_of(item[2]))  # protected spaces
            elif tag == TAB_TAG:
                out.append("\x01")
            elif tag == LB_TAG:
                out.append("\x02")
            else:
                out.append("\x03")  # an opaque inline element: a mark
            prev_space = False
    s = "".join(out)
    # trailing collapsible space at the end of the paragraph is dropped
    if s.endswith(" "):
        s = s[:-1]
    del pending_trailing
    return s.replace("\x00", " ").replace("\x01", "\t").replace("\x02", "\n").replace("\x03", "")


def plain(el, skip_opaque: bool = True) -> str:
    """Character data with the three white-space elements expanded, nothing collapsed."""
    out = []
    for item in stream(el, skip_opaque):
        if item[0] == "chars":
            out.append(item[1])
        elif item[1] == S_TAG:
            out.append(" " * spaces_of(item[2]))
        elif item[1] == TAB_TAG:
            out.append("\t")
        elif item[1] == LB_TAG:
            out.append("\n")
    return "".join(out)


def _skeleton(el, out: list, in_para: bool) -> None:
    if not isinstance(el.tag, str):
        return
    out.append("<" + el.tag)
    for k in sorted(el.attrib):
        out.append(f" {k}={el.attrib[k]!r}")
    out.append(">")
    if in_para and el.tag not in P_TAGS and _is_object(el):
        # a note / annotation is a container of its own paragraphs: white space
        # between its element children is ignorable, its text is not part of
        # the enclosing paragraph
        in_para = False
    is_para = el.tag in P_TAGS
    if is_para and not in_para:
        out.append("T[" + collapse(el, skip_opaque=True) + "]")
    elif not in_para and not is_para and el.text and el.text.strip():
        # character data outside paragraphs (meta fields, config items ...)
        out.append("t[" + el.text.strip() + "]")
    for ch in el:
        _skeleton(ch, out, in_para or is_para)
        if not (in_para or is_para) and ch.tail and ch.tail.strip():
            out.append("t[" + ch.tail.strip() + "]")
    out.append("</>")


def loose_form(xml: bytes) -> str:
    """Element structure + every attribute + readable text of every
    paragraph/heading (ODF-collapsed) + non-blank text elsewhere."""
    root = etree.fromstring(xml)
    _blank_generator(root)
    out: list[str] = []
    _skeleton(root, out, False)
    return "".join(out)


def _blank_generator(root) -> None:
    for g in root.iter("{urn:oasis:names:tc:opendocument:xmlns:meta:1.0}generator"):
        g.text = "GENERATOR"


def strict_form(xml: bytes) -> bytes:
    """Canonical XML (C14N) with the generator stamp blanked."""
    root = etree.fromstring(xml)
    _blank_generator(root)
    return etree.tostring(root, method="c14n")


def digest(b: bytes | str) -> str:
    if isinstance(b, str):
        b = b.encode()
    return hashlib.sha1(b).hexdigest()[:16]
