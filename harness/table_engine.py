"""Engine shared by the table properties (C01 C02 C07 C08 C17 C19):

  1. model-check GridMC.tla exhaustively (the abstract design + its laws),
  2. dump every transition of a bounded instance with TLC,
  3. binding A: replay each dumped transition on a real odfdo.Table built in
     several run-length encodings, and random WALKS through the dumped graph
     on one live object (so caches carry over from step to step),
  4. binding B: record random histories of the real code and let TLC
     validate them against Grid.tla (GridTrace.tla).

Every mismatch is tagged with the observable it was seen through:
  xml      independent lxml expansion of the serialized table  != model
  live:<r> answer of the live object for read <r>              != model
  fresh:<r> answer of Element.from_tag(serialize()) for <r>    != model
  struct   structural rule of C07 broken in the serialized XML
  exc      the call raised
"""

from __future__ import annotations

import json
import multiprocessing as mp
import os
import random
from collections import defaultdict

from . import tablelib as tl
from .tlc import make_cfg, run_tlc

MC_INVARIANTS = ["InvWellFormed", "TransposeInvolution", "TransposeAreaInvolution", "RStripIdempotent", "RStripKeepsValues"]
MC_PROPERTIES = ["RowLocal", "CellLocal", "ColumnShift", "WidthMonotone", "FirstRowDeclaresColumns"]


def key(state: dict) -> str:
    return json.dumps([state["rows"], state["cols"]], separators=(",", ":"))


def model_check(constants: dict, workers: int = 16, timeout: int = 1500):
    c = dict(constants)
    c["Dump"] = False
    cfg = make_cfg(
        spec="Spec",
        constants=c,
        invariants=MC_INVARIANTS,
        properties=MC_PROPERTIES,
        view="View",
    )
    return run_tlc("GridMC", cfg, workers=workers, timeout=timeout)


def dump(constants: dict, timeout: int = 1500):
    c = dict(constants)
    c["Dump"] = True
    cfg = make_cfg(
        spec="Spec",
        constants=c,
        invariants=["EmitState"],
        action_constraints=["Emit"],
        view="View",
    )
    res = run_tlc("GridMC", cfg, workers=1, timeout=timeout)
    edges = [p for p in res.printed if "pre" in p]
    reads = {key(p["state"]): p["reads"] for p in res.printed if "state" in p}
    return res, edges, reads


# ---------------------------------------------------------------- classes
def edge_class(pre: dict, o: dict) -> tuple:
    """Structural class of a transition (for coverage accounting)."""
    h = len(pre["rows"])
    w = len(pre["cols"])
    cls = [o["op"]]
    if "y" in o:
        y = o["y"]
        cls.append("y<H" if y < h else ("y=H" if y == h else "y>H"))
        if "x" in o and o["op"] not in ("insert_column", "set_column", "delete_column", "set_values"):
            rw = len(pre["rows"][y]) if y < h else 0
            x = o["x"]
            cls.append("x<w" if x < rw else ("x=w" if x == rw else "x>w"))
            if x < rw and o.get("n", 1) > 1:
                cls.append("overlap" if x + o["n"] > rw else "inside")
        # is the addressed row part of a run of equal rows (repeatable)?
        if y < h:
            rows = pre["rows"]
            same = (y > 0 and rows[y - 1] == rows[y]) or (y + 1 < h and rows[y + 1] == rows[y])
            cls.append("rowrun" if same else "rowsingle")
    elif "x" in o:
        x = o["x"]
        cls.append("x<W" if x < w else ("x=W" if x == w else "x>W"))
    if o.get("n", 1) > 1:
        cls.append("rep")
    return tuple(cls)


# ---------------------------------------------------------------- comparisons
def compare_reads(tag: str, got: dict, want: dict, out: list) -> None:
    for k, v in got.items():
        if k == "traverse":
            w = want["rows"][: len(want["rows"]) - 1]
        else:
            w = want[k]
        if _norm(v) != _norm(w):
            out.append({"kind": f"{tag}:{k}", "got": v, "want": w})


def _norm(x):
    if isinstance(x, (list, tuple)):
        return [_norm(i) for i in x]
    return x


def check_state(table, want_state: dict, want_reads: dict, kinds, fresh: bool) -> list:
    """All observations of one live table against the model's answers."""
    from odfdo import Element

    out: list = []
    xml = table.serialize()
    proj = tl.xml_project(xml)
    if proj["rows"] != _norm(want_state["rows"]) or proj["cols"] != _norm(want_state["cols"]):
        out.append({"kind": "xml", "got": {"rows": proj["rows"], "cols": proj["cols"]}, "want": want_state})
    bad = list(proj["bad"])
    w = len(proj["cols"])
    for r in proj["rows"]:
        if len(r) > w:
            bad.append("row-wider-than-columns")
            break
    if bad:
        out.append({"kind": "struct", "got": sorted(set(bad)), "want": []})
    try:
        got = tl.live_reads(table, kinds)
    except Exception as e:  # noqa: BLE001
        out.append({"kind": "exc:read", "got": repr(e), "want": None})
        got = {}
    compare_reads("live", got, want_reads, out)
    if fresh:
        try:
            t2 = Element.from_tag(xml)
            got2 = tl.live_reads(t2, kinds)
            compare_reads("fresh", got2, want_reads, out)
        except Exception as e:  # noqa: BLE001
            out.append({"kind": "exc:fresh", "got": repr(e), "want": None})
    return out


# ---------------------------------------------------------------- binding A: edges
_G: dict = {}


def _init_worker(reads, seed):
    _G["reads"] = reads
    _G["seed"] = seed


def _replay_chunk(args):
    idx0, chunk, encs, kinds = args
    reads = _G["reads"]
    res = []
    n = 0
    for i, e in enumerate(chunk):
        for enc in encs:
            rng = random.Random(_G["seed"] * 1000003 + (idx0 + i) * 7 + len(enc))
            n += 1
            try:
                table = tl.build_table(e["pre"], enc, rng)
            except Exception as ex:  # noqa: BLE001
                res.append({"kind": "exc:build", "got": repr(ex), "pre": e["pre"], "op": e["op"], "enc": enc})
                continue
            xml0 = table.serialize()
            try:
                tl.apply_op(table, e["op"], rng, enc)
            except Exception as ex:  # noqa: BLE001
                res.append({"kind": "exc:op", "got": repr(ex), "want": e["post"], "pre": e["pre"], "op": e["op"], "enc": enc, "xml": xml0})
                continue
            mm = check_state(table, e["post"], reads[key(e["post"])], kinds, fresh=True)
            for m in mm:
                m.update({"pre": e["pre"], "op": e["op"], "enc": enc, "xml": xml0})
            res.extend(mm)
    return n, res


def replay_edges(edges, reads, encs=("max", "none", "rand"), seed=0, procs=None, kinds=tl.READ_KINDS):
    procs = procs or min(16, os.cpu_count() or 4)
    size = max(50, len(edges) // (procs * 8) + 1)
    chunks = [(i, edges[i : i + size], encs, kinds) for i in range(0, len(edges), size)]
    total = 0
    mism: list = []
    with mp.get_context("fork").Pool(procs, initializer=_init_worker, initargs=(reads, seed)) as pool:
        for n, res in pool.imap_unordered(_replay_chunk, chunks):
            total += n
            mism.extend(res)
    return total, mism


# ---------------------------------------------------------------- binding A: walks
def _walk_chunk(args):
    wid0, nwalks, depth, starts = args
    reads = _G["reads"]
    out_edges = _G["out"]
    res = []
    steps = 0
    for wi in range(nwalks):
        rng = random.Random(_G["seed"] * 7919 + wid0 + wi)
        start = json.loads(rng.choice(starts))
        state = {"rows": start[0], "cols": start[1]}
        enc = rng.choice(("max", "none", "rand"))
        table = tl.build_table(state, enc, rng)
        hist = [{"start": state, "enc": enc}]
        for _ in range(depth):
            k = key(state)
            if k not in out_edges:
                break
            # cache-filling reads BEFORE the mutation, a random subset
            pre_kinds = [r for r in tl.READ_KINDS if rng.random() < 0.35]
            try:
                got = tl.live_reads(table, pre_kinds)
                mm = []
                compare_reads("live", got, reads[k], mm)
            except Exception as ex:  # noqa: BLE001
                mm = [{"kind": "exc:read", "got": repr(ex), "want": None}]
            e = rng.choice(out_edges[k])
            hist.append({"reads": pre_kinds, "op": e["op"]})
            if not mm:
                try:
                    tl.apply_op(table, e["op"], rng, rng.choice(("max", "none", "rand")))
                except Exception as ex:  # noqa: BLE001
                    mm = [{"kind": "exc:op", "got": repr(ex), "want": e["post"]}]
            steps += 1
            if not mm:
                post_kinds = [r for r in tl.READ_KINDS if rng.random() < 0.5]
                mm = check_state(table, e["post"], reads[key(e["post"])], post_kinds, fresh=rng.random() < 0.5)
            if mm:
                for m in mm:
                    m.update({"pre": state, "op": e["op"], "enc": "walk", "history": list(hist)})
                res.extend(mm)
                # the object left the model: the rest of the walk cannot be compared with it any more, but the
                # structural rules (C07) are stated on the XML alone and must keep holding whatever happens next
                res.extend(_detached_tail(table, rng, depth, state, hist))
                break
            state = e["post"]
    return steps, res


def _detached_tail(table, rng, depth, state, hist) -> list:
    from .table_driver import rand_op

    for _ in range(depth):
        try:
            proj = tl.xml_project(table.serialize())
        except Exception:  # noqa: BLE001 - unparsable XML was already reported as xml mismatch
            return []
        cur = {"rows": proj["rows"], "cols": proj["cols"]}
        o = rand_op(rng, cur)
        if o["op"] in ("csv", "optimize_width"):
            continue
        try:
            tl.live_reads(table, [r for r in tl.READ_KINDS if rng.random() < 0.35])
            tl.apply_op(table, o, rng, "rand")
            after = tl.xml_project(table.serialize())
            size = (table.width, table.height)
        except Exception:  # noqa: BLE001 - a call may fail on an object that is already wrong
            return []
        bad = list(after["bad"])
        if any(len(r) > len(after["cols"]) for r in after["rows"]):
            bad.append("row-wider-than-columns")
        if size != (len(after["cols"]), len(after["rows"])):
            bad.append(f"reported-size-{size}-differs-from-xml-{(len(after['cols']), len(after['rows']))}")
        if bad:
            return [{"kind": "struct", "got": sorted(set(bad)), "want": [], "pre": state, "op": o, "enc": "walk-after-divergence",
                     "history": list(hist) + [{"then": o}]}]
    return []


def walks(edges, reads, nwalks=200, depth=8, seed=0, procs=None):
    out_edges = defaultdict(list)
    for e in edges:
        out_edges[key(e["pre"])].append(e)
    starts = sorted(out_edges)
    procs = procs or min(16, os.cpu_count() or 4)
    _G["out"] = out_edges
    per = max(1, nwalks // (procs * 4))
    jobs = [(i, per, depth, starts) for i in range(0, nwalks, per)]
    total = 0
    mism: list = []
    _G["reads"] = reads
    _G["seed"] = seed
    with mp.get_context("fork").Pool(procs) as pool:
        for n, res in pool.imap_unordered(_walk_chunk, jobs):
            total += n
            mism.extend(res)
    return total, mism


def _blind_chunk(args):
    from .table_driver import rand_op, rand_state

    seed0, n, steps = args
    out = []
    done = 0
    for i in range(n):
        rng = random.Random(seed0 * 104729 + i)
        state = rand_state(rng)
        table = tl.build_table(state, rng.choice(("max", "rand")), rng)
        hist = [{"start": state}]
        for _ in range(steps):
            try:
                proj = tl.xml_project(table.serialize())
            except Exception:  # noqa: BLE001
                break
            cur = {"rows": proj["rows"], "cols": proj["cols"]}
            h, w = len(cur["rows"]), len(cur["cols"])
            if rng.random() < 0.45 and h and w:
                # ONE read that leaves a row / cell object in the caches, nothing else is looked at
                x, y = rng.randrange(w), rng.randrange(h)
                how = rng.choice(("get_value", "get_cell", "get_row", "get_column"))
                hist.append({"read": how, "x": x, "y": y})
                try:
                    if how == "get_value":
                        table.get_value((x, y))
                    elif how == "get_cell":
                        table.get_cell((x, y))
                    elif how == "get_row":
                        table.get_row(y)
                    else:
                        table.get_column(x)
                except Exception:  # noqa: BLE001 - judged by the other checks
                    break
                continue
            o = rand_op(rng, cur)
            if o["op"] in ("csv", "optimize_width", "clear", "transpose", "transpose_area"):
                continue
            hist.append({"op": o})
            try:
                tl.apply_op(table, o, rng, "rand")
                after = tl.xml_project(table.serialize())
                size = (table.width, table.height)
            except Exception:  # noqa: BLE001 - an exception is C01's business; the history stops
                break
            done += 1
            bad = list(after["bad"])
            if any(len(r) > len(after["cols"]) for r in after["rows"]):
                bad.append("row-wider-than-columns")
            if size != (len(after["cols"]), len(after["rows"])):
                bad.append("reported-size-differs-from-the-sum-of-repeats")
            if bad:
                out.append({"kind": "struct", "got": sorted(set(bad)), "want": [], "pre": cur, "op": o, "enc": "blind-history", "history": list(hist)})
                break
    return done, out


def blind_struct_histories(n=400, steps=14, seed=0, procs=None):
    """Histories in which nothing is read back between the operations except single cache-filling reads; the
    structural rules (stated on the XML alone) and the reported size are evaluated after every operation."""
    procs = procs or min(16, os.cpu_count() or 4)
    per = max(1, n // (procs * 2))
    jobs = [(seed * 1000 + i, per, steps) for i in range(0, n, per)]
    total, mism = 0, []
    with mp.get_context("fork").Pool(procs) as pool:
        for d, res in pool.imap_unordered(_blind_chunk, jobs):
            total += d
            mism.extend(res)
    return total, mism


def harvest_repo_tests(paths=("tests/table", "tests/test_markdown.py", "tests/scripts/test_odfdo_table_shrink.py"), timeout=900):
    """Run the repository's OWN tests under the external tracing plugin and
    return the recorded outermost mutating Table calls as single-event traces."""
    import subprocess
    import tempfile
    from pathlib import Path

    from .common import REPO, ROOT, SRC

    fd, path = tempfile.mkstemp(prefix="verif_harvest_", suffix=".ndjson")
    os.close(fd)
    try:
        env = dict(os.environ, ODFDO_VERIF="1", ODFDO_VERIF_TRACE=path, PYTHONPATH=f"{ROOT}:{SRC}")
        r = subprocess.run(["/venv/bin/python", "-m", "pytest", "-q", "-x", "-p", "no:cacheprovider", "-p", "harness.pytest_trace_plugin", *paths],
                           cwd=REPO, env=env, capture_output=True, text=True, timeout=timeout)
        lines = Path(path).read_text().splitlines()
    finally:
        Path(path).unlink(missing_ok=True)
    traces = []
    for ln in lines:
        ev = json.loads(ln)
        if "post" not in ev or "pre" not in ev:
            continue
        # bounded table sizes: TLC evaluates the recursive operators on the whole recorded table
        if any(len(st["rows"]) > 120 or sum(len(r) for r in st["rows"]) > 2500 or len(st["cols"]) > 200 for st in (ev["pre"], ev["post"])):
            continue
        if "exc" in ev:          # the test provoked an error on purpose: no claim on the result
            ev["op"] = {"op": "untranslated"}
            del ev["exc"]
        ev["kind"] = "table"
        traces.append([ev])
    return traces, r.returncode, r.stdout[-300:]


def signature(m: dict) -> str:
    """Identification of a mismatch for known-finding matching and dedup:
    observable kind | operation | structural class of the transition."""
    cls = edge_class(m["pre"], m["op"]) if "pre" in m and "op" in m and "op" in m["op"] else ("?",)
    kind = m["kind"]
    return f"{kind}|{'/'.join(cls)}"


# ---------------------------------------------------------------- orchestration
QUICK = {
    "mc": {"MaxH": 2, "MaxW": 3, "MaxRep": 2, "Vals": {1, 2}, "ColStyles": {0, 1}},
    "dump": {"MaxH": 2, "MaxW": 2, "MaxRep": 2, "Vals": {1}, "ColStyles": {0}},
    "edge_sample": None,
    "walks": (300, 8),
    "traces": (300, 12),
}
THOROUGH = {
    "mc": {"MaxH": 3, "MaxW": 3, "MaxRep": 3, "Vals": {1, 2}, "ColStyles": {0, 1}},
    "dump": {"MaxH": 2, "MaxW": 3, "MaxRep": 3, "Vals": {1, 2}, "ColStyles": {0, 1}},
    "edge_sample": 60000,
    "walks": (6000, 12),
    "traces": (6000, 14),
}


def kind_matches(kind: str, verdict_kinds) -> bool:
    return any(kind == k or kind.startswith(k + ":") for k in verdict_kinds)


def run_table_property(run, tier: str, verdict_kinds, budgets=None, parts=("mc", "edges", "walks", "traces", "harvest")):
    """Run the shared table machinery; mismatches whose observable is in
    verdict_kinds are verdicts of this property, the others are reported in
    the evidence as diagnostics (they belong to a sibling property)."""
    from . import table_driver as td

    b = dict(THOROUGH if tier == "thorough" else QUICK)
    if budgets:
        b.update(budgets)
    seed = run.seed
    diag: dict = defaultdict(int)

    def take(mism, source):
        for m in mism:
            if kind_matches(m["kind"], verdict_kinds):
                m = dict(m)
                m["source"] = source
                run.violation(signature(m), m)
            else:
                diag[m["kind"]] += 1

    if "mc" in parts:
        res = model_check(b["mc"])
        run.add_tlc("GridMC exhaustive (laws of the abstract design)", res, {k: sorted(v) if isinstance(v, set) else v for k, v in b["mc"].items()})
        if not res.ok:
            run.violation(f"model|{res.violated}", {"kind": "model", "tlc": res.stdout[-3000:]})
    edges = reads = None
    if "edges" in parts or "walks" in parts:
        res, edges, reads = dump(b["dump"])
        run.add_tlc("GridMC transition dump", res, {k: sorted(v) if isinstance(v, set) else v for k, v in b["dump"].items()})
        run.notes["dumped_edges"] = len(edges)
    if "edges" in parts:
        sel = edges
        if b.get("ops"):
            focus = [e for e in edges if e["op"]["op"] in set(b["ops"])]
            sel = focus or edges
        if b["edge_sample"] and len(sel) > b["edge_sample"]:
            rng = random.Random(seed)
            sel = rng.sample(sel, b["edge_sample"])
        n, mism = replay_edges(sel, reads, seed=seed)
        run.count(n)
        run.validated(n)
        run.notes["edges_replayed"] = n
        for e in sel:
            run.klass(*edge_class(e["pre"], e["op"]))
        for e in sel[:3]:
            run.sample({"binding": "A:edge", "pre": e["pre"], "op": e["op"], "post": e["post"]})
        take(mism, "edge-replay")
    if "walks" in parts:
        nw, depth = b["walks"]
        n, mism = walks(edges, reads, nwalks=nw, depth=depth, seed=seed)
        run.count(n)
        run.validated(nw)
        run.notes["walk_steps"] = n
        take(mism, "walk")
    if "traces" in parts:
        nt, steps = b["traces"]
        traces = td.generate(nt, seed, steps, ops=b.get("ops"))
        res, verdicts = td.validate(traces)
        run.add_tlc("GridTrace validation of recorded histories", res)
        if verdicts is None:
            run.machinery("GridTrace produced no report:\n" + res.stdout[-2000:])
        nev = sum(len(t) for t in traces)
        run.count(nev)
        run.validated(len(traces))
        run.notes["trace_events"] = nev
        for tr in traces:
            st = tr[0]["pre"]
            for ev in tr:
                if ev["kind"] == "table":
                    run.klass("B", *edge_class(st, ev["op"]))
                else:
                    run.klass("B", ev["op"]["op"])
                st = ev["post"]
        if traces:
            run.sample({"binding": "B:trace", "events": [{"op": e["op"], "post": e["post"]} for e in traces[0][:4]]})
        for v in verdicts["verdicts"]:
            tr = traces[v["tid"] - 1]
            ev = tr[v["l"] - 1]
            pre = tr[v["l"] - 2]["post"] if v["l"] > 1 else ev["pre"]
            kind = v["clause"] if v["clause"] in ("xml", "struct") else f"{v['clause']}:{v['what']}"
            m = {"kind": kind, "pre": pre, "op": ev["op"], "got": ev.get("post"), "what": v["what"],
                 "history": [e["op"] for e in tr[: v["l"]]], "start": tr[0]["pre"], "event": ev}
            if ev["kind"] == "row":
                m["pre"] = {"rows": [pre], "cols": []}
            take([m], "trace")
    if "harvest" in parts:
        traces, rc, tail = harvest_repo_tests()
        run.notes["harvested_repo_test_calls"] = len(traces)
        run.notes["harvest_pytest_rc"] = rc
        if traces:
            res, verdicts = td.validate(traces)
            run.add_tlc("GridTrace validation of calls harvested from the repository's own tests", res)
            if verdicts is None:
                run.machinery("GridTrace produced no report on harvested traces")
            run.count(len(traces))
            run.validated(len(traces))
            run.notes["harvest_translated"] = sum(1 for t in traces if t[0]["op"]["op"] != "untranslated")
            for tr in traces:
                run.klass("harvest", tr[0]["method"], tr[0]["op"]["op"] != "untranslated")
            for v in verdicts["verdicts"]:
                ev = traces[v["tid"] - 1][0]
                kind = v["clause"] if v["clause"] in ("xml", "struct") else f"{v['clause']}:{v['what']}"
                take([{"kind": kind, "pre": ev["pre"], "op": ev["op"] if ev["op"]["op"] != "untranslated" else {"op": ev["method"]},
                       "got": ev["post"], "what": v["what"], "test": ev["test"], "method": ev["method"]}], "harvested-repo-test")
        elif rc != 0:
            run.notes["harvest_note"] = "pytest under the tracing plugin did not produce traces: " + tail
    run.notes["diagnostics_other_properties"] = dict(diag)
    return diag
