"""Thin driver around TLC: run a module with a generated cfg in a scratch
directory, collect TLC's own state counts and every PrintT'ed JSON line.

Exit codes used by callers: 0 held, 1 violation, 2 machinery failure.
"""

from __future__ import annotations

import json
import os
import re
import shutil
import subprocess
import tempfile
import time
from dataclasses import dataclass, field
from pathlib import Path

SPEC_DIR = Path(__file__).resolve().parent.parent / "spec"
JAR = "/opt/veriftools/tla/tla2tools.jar"
DEPS = "/opt/veriftools/tla/CommunityModules-deps.jar"


class MachineryError(Exception):
    """TLC could not run / parse / finished abnormally: never a verdict."""


@dataclass
class TlcResult:
    ok: bool  # no invariant/property violation, no error
    states: int = 0  # states generated
    distinct: int = 0
    wall_s: float = 0.0
    printed: list = field(default_factory=list)  # decoded PrintT payloads
    violated: str | None = None  # name of violated invariant/property
    stdout: str = ""
    coverage: dict = field(default_factory=dict)  # action -> (distinct, total)
    cmd: str = ""


_RE_STATES = re.compile(
    r"(\d+) states generated, (\d+) distinct states found, (\d+) states left on queue"
)
_RE_INV = re.compile(r"Invariant (\S+) is violated")
_RE_PROP = re.compile(r"(?:Temporal|Action) property (\S+) (?:was|is) violated")
_RE_COV = re.compile(r"^<(\w+) line .*?>: (\d+):(\d+)", re.M)


def make_cfg(
    *,
    init: str = "Init",
    next_: str = "Next",
    spec: str | None = None,
    constants: dict | None = None,
    invariants: list[str] | tuple = (),
    properties: list[str] | tuple = (),
    constraints: list[str] | tuple = (),
    action_constraints: list[str] | tuple = (),
    postcondition: str | None = None,
    check_deadlock: bool = False,
    view: str | None = None,
    symmetry: str | None = None,
) -> str:
    out = []
    if spec:
        out.append(f"SPECIFICATION {spec}")
    else:
        out.append(f"INIT {init}")
        out.append(f"NEXT {next_}")
    if constants:
        out.append("CONSTANTS")
        for k, v in constants.items():
            out.append(f"  {k} = {tla_value(v)}")
    for i in invariants:
        out.append(f"INVARIANT {i}")
    for p in properties:
        out.append(f"PROPERTY {p}")
    for c in constraints:
        out.append(f"CONSTRAINT {c}")
    for c in action_constraints:
        out.append(f"ACTION_CONSTRAINT {c}")
    if postcondition:
        out.append(f"POSTCONDITION {postcondition}")
    if view:
        out.append(f"VIEW {view}")
    if symmetry:
        out.append(f"SYMMETRY {symmetry}")
    out.append(f"CHECK_DEADLOCK {'TRUE' if check_deadlock else 'FALSE'}")
    return "\n".join(out) + "\n"


def tla_value(v) -> str:
    if isinstance(v, bool):
        return "TRUE" if v else "FALSE"
    if isinstance(v, int):
        return str(v)
    if isinstance(v, str):
        # raw TLA+ expression when prefixed by '=' ; otherwise a string literal
        if v.startswith("="):
            return v[1:]
        return json.dumps(v)
    if isinstance(v, (set, frozenset)):
        return "{" + ", ".join(tla_value(x) for x in sorted(v, key=repr)) + "}"
    if isinstance(v, (list, tuple)):
        return "<<" + ", ".join(tla_value(x) for x in v) + ">>"
    raise TypeError(v)


def _decode_printed(stdout: str) -> list:
    """PrintT(ToJson(x)) prints a TLA+ string: a quoted, escaped JSON text.
    Lines which are not of that shape are ignored."""
    out = []
    for line in stdout.splitlines():
        if not line.startswith('"'):
            continue
        try:
            s = json.loads(line)
            out.append(json.loads(s))
        except Exception:
            continue
    return out


def run_tlc(
    module: str,
    cfg: str,
    *,
    workers: int | str = 1,
    timeout: int = 600,
    env: dict | None = None,
    simulate: str | None = None,
    depth: int | None = None,
    seed: int | None = None,
    coverage: bool = False,
    extra_files: dict | None = None,
    keep_dir: str | None = None,
    heap: str = "4g",
    dfs_queue: bool = False,
    decode: bool = True,
) -> TlcResult:
    """Run TLC on spec/<module>.tla with the given cfg text."""
    work = Path(tempfile.mkdtemp(prefix="verif_tlc_"))
    try:
        for f in SPEC_DIR.glob("*.tla"):
            shutil.copy(f, work / f.name)
        for name, text in (extra_files or {}).items():
            (work / name).write_text(text)
        (work / f"{module}.cfg").write_text(cfg)
        jopts = [f"-Xmx{heap}", "-Xss512m", "-XX:+UseParallelGC"]
        if dfs_queue:
            jopts.append("-Dtlc2.tool.queue.IStateQueue=StateDeque")
        cmd = [
            "java",
            *jopts,
            "-cp",
            f"{JAR}:{DEPS}",
            "tlc2.TLC",
            "-workers",
            str(workers),
            "-metadir",
            str(work / "meta"),
            "-noGenerateSpecTE",
            "-config",
            f"{module}.cfg",
        ]
        if coverage:
            cmd += ["-coverage", "1"]
        if simulate is not None:
            cmd += ["-simulate", simulate]
        if depth is not None:
            cmd += ["-depth", str(depth)]
        if seed is not None:
            cmd += ["-seed", str(seed)]
        cmd.append(f"{module}.tla")
        full_env = dict(os.environ)
        full_env.pop("JAVA_TOOL_OPTIONS", None)
        if env:
            full_env.update({k: str(v) for k, v in env.items()})
        t0 = time.time()
        try:
            proc = subprocess.run(
                cmd,
                cwd=work,
                env=full_env,
                capture_output=True,
                text=True,
                timeout=timeout,
            )
        except subprocess.TimeoutExpired as e:
            raise MachineryError(f"TLC timeout after {timeout}s on {module}") from e
        wall = time.time() - t0
        out = proc.stdout
        res = TlcResult(ok=False, wall_s=wall, stdout=out, cmd=" ".join(cmd[-8:]))
        m = None
        for m in _RE_STATES.finditer(out):
            pass
        if m:
            res.states = int(m.group(1))
            res.distinct = int(m.group(2))
        if decode:
            res.printed = _decode_printed(out)
        for mm in _RE_COV.finditer(out):
            res.coverage[mm.group(1)] = (int(mm.group(2)), int(mm.group(3)))
        mi = _RE_INV.search(out) or _RE_PROP.search(out)
        if mi:
            res.violated = mi.group(1)
            return res
        if "Model checking completed. No error has been found." in out or (
            simulate is not None and proc.returncode == 0
        ):
            res.ok = True
            return res
        if simulate is not None and "Error:" not in out:
            res.ok = True
            return res
        if "Deadlock reached" in out:
            res.violated = "Deadlock"
            return res
        lines = out.splitlines()
        errs = []
        for i, ln in enumerate(lines):
            if ln.startswith("Error:") or "Exception" in ln:
                errs.extend(lines[i : i + 6])
        tail = "\n".join(errs[:40] + ["..."] + lines[-12:])
        raise MachineryError(
            f"TLC failed on {module} (rc={proc.returncode}):\n{tail}\n{proc.stderr[-2000:]}"
        )
    finally:
        if keep_dir:
            shutil.rmtree(keep_dir, ignore_errors=True)
            shutil.copytree(work, keep_dir)
        shutil.rmtree(work, ignore_errors=True)


def sany(module_path: Path) -> tuple[bool, str]:
    proc = subprocess.run(
        ["java", "-cp", f"{JAR}:{DEPS}", "tla2sany.SANY", module_path.name],
        cwd=module_path.parent,
        capture_output=True,
        text=True,
        timeout=120,
    )
    ok = proc.returncode == 0 and "Semantic errors" not in proc.stdout and "error" not in proc.stdout.lower().replace("0 error", "")
    return ok, proc.stdout + proc.stderr
