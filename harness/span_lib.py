"""Binding A for Span.tla: real Table <-> matrix of [v, cs, rs, cov] cells."""

from __future__ import annotations

import random

from lxml import etree

from . import tablelib as tl

T = tl.T
O = tl.O


def cell_xml(c: dict, rep: int = 1) -> str:
    tag = "table:covered-table-cell" if c["cov"] else "table:table-cell"
    at = ""
    if c["cs"]:
        at += f' table:number-columns-spanned="{c["cs"]}"'
    if c["rs"]:
        at += f' table:number-rows-spanned="{c["rs"]}"'
    if rep > 1:
        at += f' table:number-columns-repeated="{rep}"'
    v = c["v"]
    if not v:
        return f"<{tag}{at}/>"
    if len(v) == 1:
        return f'<{tag} office:value-type="float" office:value="{v[0]}"{at}><text:p>{v[0]}</text:p></{tag}>'
    s = " ".join(str(i) for i in v)
    return f'<{tag} office:value-type="string"{at}><text:p>{s}</text:p></{tag}>'


def build(matrix: list, enc: str, rng: random.Random):
    from odfdo import Element

    w = len(matrix[0]) if matrix else 0
    parts = ['<table:table table:name="T">', tl.col_xml(0, w) if w else ""]
    rows = [[_freeze(c) for c in r] for r in matrix]
    for r, n in tl.runs_of([tuple(r) for r in rows], enc, rng):
        rr = f' table:number-rows-repeated="{n}"' if n > 1 else ""
        parts.append(f"<table:table-row{rr}>")
        for c, k in tl.runs_of(list(r), enc, rng):
            parts.append(cell_xml(_thaw(c), k))
        parts.append("</table:table-row>")
    parts.append("</table:table>")
    return Element.from_tag("".join(parts))


def _freeze(c):
    return (tuple(c["v"]), c["cs"], c["rs"], c["cov"])


def _thaw(c):
    return {"v": list(c[0]), "cs": c[1], "rs": c[2], "cov": c[3]}


def project(table, w: int, h: int) -> list:
    """Independent lxml expansion into the Span.tla matrix (padded to w x h)."""
    root = tl.parse_wrapped(table.serialize())
    tab = root[0]
    out = []
    for r in tab.iter(T + "table-row"):
        n = int(r.get(T + "number-rows-repeated", "1"))
        cells = []
        for c in r:
            if c.tag not in (T + "table-cell", T + "covered-table-cell"):
                continue
            k = int(c.get(T + "number-columns-repeated", "1"))
            cells.extend([_cell(c)] * k)
        for _ in range(n):
            out.append([dict(x) for x in cells])
    empty = {"v": [], "cs": 0, "rs": 0, "cov": False}
    out = [r + [dict(empty)] * (w - len(r)) for r in out]
    while len(out) < h:
        out.append([dict(empty) for _ in range(w)])
    return out


def _cell(c) -> dict:
    vt = c.get(O + "value-type")
    v: list = []
    if vt == "float":
        v = [int(float(c.get(O + "value")))]
    elif vt == "string":
        txt = c.get(O + "string-value") or "".join(c.itertext())
        v = [int(x) if x.isdigit() else x for x in txt.split()]
    return {
        "v": v,
        "cs": int(c.get(T + "number-columns-spanned", "0")),
        "rs": int(c.get(T + "number-rows-spanned", "0")),
        "cov": c.tag == T + "covered-table-cell",
    }


def _wrap(xml: str) -> bytes:
    ns = " ".join(f'xmlns:{k}="{v}"' for k, v in tl.NS.items())
    return f"<r {ns}>{xml}</r>".encode()


def apply(table, o: dict):
    if o["op"] == "set_span":
        a = o["a"]
        return table.set_span((a["x"], a["y"], a["z"], a["t"]), merge=o["merge"])
    return table.del_span((o["x"], o["y"]))
