"""C19 driver: read real tables through every coordinate form."""

from __future__ import annotations

import json
import multiprocessing as mp
import os
import random
import tempfile
from pathlib import Path

from . import tablelib as tl
from .table_driver import rand_state
from .tlc import make_cfg, run_tlc


def alpha(n: int) -> str:
    """independent bijective base-26 (not odfdo's)"""
    s = ""
    n += 1
    while n:
        n, r = divmod(n - 1, 26)
        s = chr(65 + r) + s
    return s


def one_batch(seed: int) -> list:
    rng = random.Random(seed)
    state = rand_state(rng, 5, 6)
    if not state["rows"] or not state["cols"]:
        state = {"rows": [[1, 2], [0, 3, 3]], "cols": [0, 0, 1, 0]}
    table = tl.build_table(state, rng.choice(("max", "none", "rand")), rng)
    h, w = len(state["rows"]), len(state["cols"])
    evs = []

    def rec(method, form, a, fn):
        ev = {"pre": state, "method": method, "form": form, "a": a}
        try:
            ev["got"] = fn()
        except Exception as ex:  # noqa: BLE001
            ev["exc"] = f"{type(ex).__name__}: {ex}"[:160]
        evs.append(ev)

    codes = lambda cells: [tl.live_cell_code(c) for c in cells]  # noqa: E731
    vals = lambda vs: [tl.val_code(v) for v in vs]  # noqa: E731
    for _ in range(4):
        x = rng.randint(0, w - 1)
        y = rng.randint(0, h - 1)
        if rng.random() < 0.3:
            x = y = 0
        z = rng.randint(x, w)  # may be one beyond the last column
        t = rng.randint(y, h)
        a = {"x": x, "y": y, "z": z, "t": t}
        s_cell = f"{alpha(x)}{y + 1}"
        s_area = f"{alpha(x)}{y + 1}:{alpha(z)}{t + 1}"
        neg = lambda v, n: v - n  # noqa: E731
        # single cell
        for form, c in (("str", s_cell), ("tuple2", (x, y)), ("list2", [x, y]), ("neg", (neg(x, w), neg(y, h))), ("lower", s_cell.lower())):
            rec("get_value", form, a, lambda c=c: tl.val_code(table.get_value(c)))
            rec("get_cell", form, a, lambda c=c: tl.live_cell_code(table.get_cell(c)))
        # areas
        zz = min(z, w - 1)
        tt = min(t, h - 1)
        area_forms = [("str", s_area), ("tuple4", (x, y, z, t)), ("list4", [x, y, z, t]), ("spaces", f" {alpha(x)}{y + 1} : {alpha(z)}{t + 1} ")]
        if z < w and t < h:
            area_forms.append(("neg", (neg(x, w), neg(y, h), neg(z, w), neg(t, h))))
        if x == 0 and y == 0:
            # the start left open
            area_forms += [("open-str", f":{alpha(z)}{t + 1}"), ("open-tuple", (None, None, z, t)), ("open-x", (None, 0, z, t))]
        for form, c in area_forms:
            rec("get_values", form, a, lambda c=c: [vals(r) for r in table.get_values(c)])
            # the generator form of the same read
            rec("get_values", form + "-iter", a, lambda c=c: [vals(r) for r in table.iter_values(c)])
            rec("get_cells", form, a, lambda c=c: [codes(r) for r in table.get_cells(c)])
            rec("get_values_flat", form, a, lambda c=c: vals(table.get_values(c, flat=True)))
            for comp in (True, False):
                ct = rng.choice(["all", "float", " Float "])
                rec("get_values_typed", form, dict(a, complete=comp), lambda c=c, comp=comp, ct=ct: [vals(r) for r in table.get_values(c, cell_type=ct, complete=comp)])
            rec("get_cells_flat", form, a, lambda c=c: codes(table.get_cells(c, flat=True)))
            for f, kw in (("style", {"style": "ce1"}), ("typed", {"cell_type": "all"}), ("content", {"content": "^k$"})):
                rec("get_cells_filtered", form, dict(a, f=f), lambda c=c, kw=kw: [codes(r) for r in table.get_cells(c, **kw)])
        # rows
        rows_forms = [("tuple2", (y, t)), ("str", f"{y + 1}:{t + 1}"), ("tuple4", (0, y, w, t))]
        if t < h:
            rows_forms.append(("neg", (neg(y, h), neg(t, h))))
        for form, c in rows_forms:
            rec("get_rows", form, a, lambda c=c: [codes(r.traverse()) for r in table.get_rows(c)])
        for form, c in (("int", y), ("str", str(y + 1)), ("neg", neg(y, h))):
            rec("get_row", form, a, lambda c=c: codes(table.get_row(c).traverse()))
        # columns
        cols_forms = [("tuple2", (x, z)), ("str", f"{alpha(x)}:{alpha(z)}"), ("tuple4", (x, 0, z, h))]
        if z < w:
            cols_forms.append(("neg", (neg(x, w), neg(z, w))))
        for form, c in cols_forms:
            rec("get_columns", form, a, lambda c=c: [tl.col_code(k) for k in table.get_columns(c)])
            for sc in sorted(set(state["cols"]) - {0}):
                rec("get_columns_style", form, dict(a, s=sc), lambda c=c, sc=sc: [tl.col_code(k) for k in table.get_columns(c, style=f"co{sc}")])
        for form, c in (("int", x), ("str", alpha(x)), ("neg", neg(x, w)), ("lower", alpha(x).lower())):
            rec("get_column_values", form, a, lambda c=c: vals(table.get_column_values(c)))
            for comp in (True, False):
                rec("get_column_values_typed", form, dict(a, complete=comp), lambda c=c, comp=comp: vals(table.get_column_values(c, cell_type="all", complete=comp)))
        # row-level range
        row = table.get_row(y)
        rw = row.width
        if rw:
            x2 = rng.randint(0, rw - 1)
            z2 = rng.randint(x2, rw)
            a2 = {"x": x2, "y": y, "z": z2, "t": y}
            for form, c in (("tuple2", (x2, z2)), ("str", f"{alpha(x2)}:{alpha(z2)}"), ("tuple4", (x2, 0, z2, 0))):
                rec("row_get_values", form, a2, lambda c=c: vals(row.get_values(c)))
    return evs


def generate(n: int, seed: int, procs=None) -> list:
    procs = procs or min(16, os.cpu_count() or 4)
    with mp.get_context("fork").Pool(procs) as pool:
        res = pool.map(one_batch, [seed * 7_000_003 + i for i in range(n)], chunksize=max(1, n // (procs * 4)))
    return [e for b in res for e in b]


DEPTH = {"get_value": 0, "get_cell": 0, "get_values": 2, "get_cells": 2, "get_rows": 2, "get_columns": 1,
         "get_values_flat": 1, "get_cells_flat": 1, "get_columns_style": 1, "get_values_typed": 2, "get_column_values_typed": 1, "get_cells_filtered": 2,
         "get_row": 1, "get_column_values": 1, "row_get_values": 1}


def split_malformed(events: list):
    """(well-shaped events, malformed events) - see common.shape_ok"""
    from .common import shape_ok

    good, bad = [], []
    for ev in events:
        if "exc" in ev or shape_ok(ev.get("got"), DEPTH[ev["method"]]):
            good.append(ev)
        else:
            bad.append(ev)
    return good, bad


def validate(events: list, timeout: int = 900):
    fd, path = tempfile.mkstemp(prefix="verif_coord_", suffix=".json")
    try:
        with os.fdopen(fd, "w") as f:
            json.dump(events, f)
        cfg = make_cfg(spec="Spec", invariants=["Report"])
        res = run_tlc("CoordTrace", cfg, workers=1, timeout=timeout, env={"TRACE_FILE": path}, heap="8g")
    finally:
        Path(path).unlink(missing_ok=True)
    rep = None
    for p in res.printed:
        if isinstance(p, dict) and "verdicts" in p:
            rep = p
    return res, rep
