"""Shared plumbing of the checks: tiers/seeds, verdict collection, known
findings, replay files, evidence files."""

from __future__ import annotations

import json
import os
import sys
import time
from pathlib import Path

ROOT = Path(__file__).resolve().parent.parent
# (experiments against a scratch copy of the library - ODFDO_REPO / ODFDO_SRC - can send their evidence elsewhere, so that
# the committed evidence only ever comes from runs against /repo itself)
EVIDENCE_DIR = Path(os.environ.get("VERIF_EVIDENCE_DIR", str(ROOT / "evidence")))
REPLAY_DIR = Path(os.environ.get("VERIF_REPLAY_DIR", str(ROOT / "replays")))
FINDINGS_FILE = ROOT / "known_findings.json"

REPO = Path(os.environ.get("ODFDO_REPO", "/repo"))
SRC = Path(os.environ.get("ODFDO_SRC", str(REPO / "src")))


def use_repo_source() -> None:
    """Make `import odfdo` resolve to the working tree under test."""
    p = str(SRC)
    if p in sys.path:
        sys.path.remove(p)
    sys.path.insert(0, p)
    for name in list(sys.modules):
        if name == "odfdo" or name.startswith("odfdo."):
            del sys.modules[name]
    import odfdo  # noqa: F401

    got = Path(odfdo.__file__).resolve()
    if SRC.resolve() not in got.parents:
        raise RuntimeError(f"odfdo imported from {got}, expected under {SRC}")


def shape_ok(v, depth: int) -> bool:
    """TLC raises (instead of answering FALSE) when it compares values of
    different kinds, e.g. an integer with a sequence.  Recorded answers are
    therefore checked for their expected nesting depth of integers BEFORE
    they are handed to TLC; an answer of the wrong shape is itself reported
    as a violation by the caller."""
    if depth == 0:
        return isinstance(v, int) and not isinstance(v, bool)
    return isinstance(v, list) and all(shape_ok(x, depth - 1) for x in v)


def seed() -> int:
    try:
        return int(os.environ.get("VERIF_SEED", "0"))
    except ValueError:
        return 0


def load_findings() -> list[dict]:
    if not FINDINGS_FILE.exists():
        return []
    data = json.loads(FINDINGS_FILE.read_text())
    return data.get("findings", [])


class Run:
    """One run of one check: collects violations, known findings, coverage."""

    def __init__(self, prop: str, tier: str, level: str = "model_checking"):
        self.prop = prop
        self.tier = tier
        self.level = level
        self.seed = seed()
        self.t0 = time.time()
        self.violations: list[dict] = []
        self.known_hits: dict[str, dict] = {}
        self.coverage: dict = {
            "states": 0,
            "transitions": 0,
            "traces_validated_against_impl": 0,
            "evaluations": 0,
            "distinct_nontrivial": 0,
            "samples": [],
            "rule": "",
            "tlc_runs": [],
        }
        self.classes: set = set()
        self.assumptions: list[str] = []
        self.notes: dict = {}
        self._known = [
            f
            for f in load_findings()
            if f.get("property") == prop and f.get("status") == "open"
        ]

    # -- coverage -------------------------------------------------------
    def add_tlc(self, name: str, res, constants: dict | None = None) -> None:
        self.coverage["states"] += res.distinct
        self.coverage["transitions"] += res.states
        self.coverage["tlc_runs"].append(
            {
                "model": name,
                "distinct_states": res.distinct,
                "states_generated": res.states,
                "wall_s": round(res.wall_s, 2),
                "constants": constants or {},
                "result": "ok" if res.ok else f"violated:{res.violated}",
            }
        )

    def sample(self, obj, limit: int = 6) -> None:
        if len(self.coverage["samples"]) < limit:
            self.coverage["samples"].append(obj)

    def count(self, n: int = 1) -> None:
        self.coverage["evaluations"] += n

    def klass(self, *key) -> None:
        self.classes.add(tuple(key))

    def validated(self, n: int = 1) -> None:
        self.coverage["traces_validated_against_impl"] += n

    # -- verdicts -------------------------------------------------------
    def violation(self, signature: str, detail: dict) -> None:
        """Report a violation; if its signature is a listed known finding it
        is printed as such, otherwise it is a VIOLATION with a replay file."""
        for f in self._known:
            if f["signature"] == signature:
                hit = self.known_hits.setdefault(
                    signature, {"count": 0, "what": f.get("what", signature)}
                )
                hit["count"] += 1
                return
        detail = dict(detail)
        detail["signature"] = signature
        detail["property"] = self.prop
        self.violations.append(detail)

    def machinery(self, msg: str) -> None:
        print(f"MACHINERY-FAILURE property={self.prop}: {msg}", file=sys.stderr)
        sys.stdout.flush()
        sys.exit(2)

    # -- end ------------------------------------------------------------
    def finish(self) -> int:
        wall = time.time() - self.t0
        cov = self.coverage
        cov["distinct_nontrivial"] = len(self.classes)
        cov["exhaustive_model"] = True
        cov.update(self.notes)
        ev = {
            "property_id": self.prop,
            "tier": self.tier,
            "seed": self.seed,
            "level": self.level,
            "coverage": cov,
            "assumptions": self.assumptions,
            "wall_s": round(wall, 2),
            "violations": len(self.violations),
            "known_findings_hit": self.known_hits,
        }
        EVIDENCE_DIR.mkdir(parents=True, exist_ok=True)
        (EVIDENCE_DIR / f"{self.prop}.json").write_text(
            json.dumps(ev, indent=1, default=str) + "\n"
        )
        for sig, hit in sorted(self.known_hits.items()):
            print(f"KNOWN-FINDING: property={self.prop} {hit['what']} [{sig}] x{hit['count']}")
        if self.violations:
            d = REPLAY_DIR / self.prop
            d.mkdir(parents=True, exist_ok=True)
            seen = set()
            n = 0
            for v in self.violations:
                sig = v["signature"]
                if sig in seen:
                    continue
                seen.add(sig)
                n += 1
                safe = "".join(c if c.isalnum() or c in "-_." else "_" for c in sig)[:80]
                path = d / f"{self.tier}_{safe}.json"
                path.write_text(json.dumps(v, indent=1, default=str) + "\n")
                print(f"VIOLATION property={self.prop} replay={path}")
                print(f"  signature: {sig}")
                short = json.dumps(v, default=str)
                print(f"  detail: {short[:600]}")
                if n >= 12:
                    break
            print(
                f"{self.prop}: {len(self.violations)} violating cases, {len(seen)} distinct signatures"
            )
            return 1
        print(
            f"{self.prop} [{self.tier}] held: states={cov['states']} transitions={cov['transitions']} "
            f"impl_validated={cov['traces_validated_against_impl']} evaluations={cov['evaluations']} "
            f"classes={cov['distinct_nontrivial']} wall={wall:.1f}s"
        )
        return 0


def generic_replay(prop: str, path: str, mod) -> int:
    """./check <id> --replay <file>: the replay file names a violation by its signature (and holds the failing input /
    history for the reader); the property's check is run again at the tier recorded in the file name, with its evidence and
    replay files sent to a scratch directory, and the outcome says whether a violation with that signature is found again.
    exit 1: reproduced (VIOLATION line printed), exit 0: not reproduced on the current tree."""
    import contextlib
    import io
    import tempfile

    global EVIDENCE_DIR, REPLAY_DIR
    data = json.loads(Path(path).read_text())
    sig = data.get("signature") or (data.get("detail") or {}).get("signature")
    tier = "thorough" if Path(path).name.startswith("thorough_") else "quick"
    tmp = Path(tempfile.mkdtemp(prefix="verif_replay_"))
    old = (EVIDENCE_DIR, REPLAY_DIR)
    EVIDENCE_DIR, REPLAY_DIR = tmp / "evidence", tmp / "replays"
    try:
        out = io.StringIO()
        with contextlib.redirect_stdout(out):
            try:
                mod.main(tier)
            except SystemExit:
                pass
            except Exception:
                import traceback

                text = traceback.format_exc()
                if sig == "library-exception-escaped" and any(
                    "/odfdo/" in ln and "File " in ln and "/verif/" not in ln for ln in text.splitlines()
                ):
                    print(f"VIOLATION property={prop} replay={path}", file=sys.__stdout__)
                    print("  reproduced: an exception escaped from the library again", file=sys.__stdout__)
                    return 1
                raise
        found = []
        for f in (tmp / "replays").rglob("*.json"):
            try:
                d = json.loads(f.read_text())
            except ValueError:
                continue
            if d.get("signature") == sig or (d.get("detail") or {}).get("signature") == sig:
                found.append(f)
    finally:
        EVIDENCE_DIR, REPLAY_DIR = old
    if found:
        print(f"VIOLATION property={prop} replay={path}")
        print(f"  reproduced: signature {sig!r} found again by the {tier} tier")
        return 1
    print(f"replay property={prop}: signature {sig!r} not found again by the {tier} tier on the current tree")
    return 0
