"""Binding B for the package properties: seeded random histories on real
odfdo Documents (templates and sample files), recorded for
spec/PackageTrace.tla.  Every observation of what is ON DISK / IN A BUFFER is
taken with zipfile / os.walk / lxml only."""

from __future__ import annotations

import io
import json
import multiprocessing as mp
import os
import random
import shutil
import tempfile
import zipfile
from pathlib import Path

from lxml import etree

from . import odftext
from .common import REPO
from .tlc import make_cfg, run_tlc

SAMPLES = REPO / "tests" / "samples"
MANIFEST = "META-INF/manifest.xml"
MNS = "{urn:oasis:names:tc:opendocument:xmlns:manifest:1.0}"
XML_PARTS = ("content.xml", "styles.xml", "meta.xml", "settings.xml")
TEMPLATES = ("text", "spreadsheet", "presentation", "drawing")


def sample_files() -> list[Path]:
    return sorted(p for p in SAMPLES.iterdir() if p.suffix in (".odt", ".ods", ".odp", ".odg"))


# ---------------------------------------------------------------- independent readers
def read_zip(src) -> tuple[dict, dict]:
    if isinstance(src, io.BytesIO):
        src.seek(0)
    with zipfile.ZipFile(src) as zf:
        infos = zf.infolist()
        names = [i.filename for i in infos]
        parts = {}
        for i in infos:
            parts[i.filename] = zf.read(i)
        first = infos[0] if infos else None
        zinfo = {
            "mimetype_first": bool(first and first.filename == "mimetype"),
            "mimetype_stored": bool(first and first.compress_type == zipfile.ZIP_STORED),
            "dups": sorted({n for n in names if names.count(n) > 1}),
        }
    return parts, zinfo


def read_folder(path: Path) -> dict:
    parts = {}
    for root, _dirs, files in os.walk(path):
        for f in files:
            p = Path(root) / f
            parts[p.relative_to(path).as_posix()] = p.read_bytes()
    return parts


def is_xml_name(name: str) -> bool:
    return name.endswith(".xml") or name.endswith(".rdf")


class Ids:
    """digest -> small integer, per trace"""

    def __init__(self):
        self.map: dict = {}

    def __call__(self, d: str) -> int:
        if d not in self.map:
            self.map[d] = len(self.map) + 1
        return self.map[d]


def part_ids(name: str, data: bytes, ids: Ids) -> dict:
    if is_xml_name(name) and data.lstrip().startswith(b"<"):
        try:
            s = odftext.digest(odftext.strict_form(data))
            lo = odftext.digest(odftext.loose_form(data))
            return {"s": ids("S" + s), "l": ids("L" + lo)}
        except etree.XMLSyntaxError:
            pass
    d = ids("B" + odftext.digest(data))
    return {"s": d, "l": d}


def manifest_paths(data: bytes) -> tuple[list, list, str | None]:
    root = etree.fromstring(data)
    paths, media_root = [], None
    for fe in root.iter(MNS + "file-entry"):
        p = fe.get(MNS + "full-path")
        paths.append(p)
        if p == "/":
            media_root = fe.get(MNS + "media-type")
    files = [p for p in paths if p != "/" and not p.endswith("/")]
    return paths, files, media_root


def project_package(parts: dict, ids: Ids) -> tuple[dict, list, list, bool]:
    """(parts ids without manifest and directory entries, manifest paths, manifest files, root media ok)"""
    out = {}
    for name, data in parts.items():
        if name.endswith("/") or name == MANIFEST:
            continue
        out[name] = part_ids(name, data, ids)
    paths, files, media_root = manifest_paths(parts[MANIFEST]) if MANIFEST in parts else ([], [], None)
    mt = parts.get("mimetype", b"").decode("utf8", "replace")
    return out, paths, files, (media_root == mt)


# ---------------------------------------------------------------- the document's own view
SHORTCUTS = {"content.xml": "content", "styles.xml": "styles", "meta.xml": "meta", "settings.xml": "settings", MANIFEST: "manifest"}


def doc_view(doc, names, ids: Ids, shortcut: bool = False) -> dict:
    """What the live document answers for these parts (public get_part; with shortcut=True the documented short names
    "content", "styles", "meta", "settings" are used for the parts that have one)."""
    from odfdo.xmlpart import XmlPart

    view = {}
    for name in names:
        try:
            p = doc.get_part(SHORTCUTS.get(name, name) if shortcut else name)
        except Exception:  # noqa: BLE001  deleted / absent
            view[name] = {"s": 0, "l": 0}
            continue
        if p is None:
            view[name] = {"s": 0, "l": 0}
        elif isinstance(p, XmlPart):
            view[name] = part_ids(name, p.serialize(), ids)
        elif isinstance(p, str):
            view[name] = part_ids(name, p.encode(), ids)
        else:
            view[name] = part_ids(name, p, ids)
    return view


# ---------------------------------------------------------------- generated documents
INLINE = [
    "word", " ", "  x", "<text:s/>", '<text:s text:c="3"/>', "<text:tab/>", "<text:line-break/>",
    '<text:span text:style-name="T1">span</text:span>', '<text:span text:style-name="T1"> lead</text:span>',
    '<text:span text:style-name="T1"><text:s/>in<text:tab/></text:span>',
    '<text:a xlink:href="http://example.org/" xlink:type="simple">link</text:a>',
    '<text:a xlink:href="http://example.org/x" xlink:type="simple">see <text:span text:style-name="T1">the site</text:span> now</text:a>',
    '<text:note text:id="ftn1" text:note-class="footnote"><text:note-citation>1</text:note-citation>'
    "<text:note-body><text:p>note body</text:p></text:note-body></text:note>",
    '<draw:frame draw:name="f1" text:anchor-type="as-char" svg:width="1cm" svg:height="1cm">'
    "<draw:text-box><text:p>boxed</text:p></draw:text-box></draw:frame>",
    '<text:note text:id="ftn2" text:note-class="footnote"><text:note-citation/>'
    "<text:note-body><text:p>note without citation</text:p></text:note-body></text:note>",
    "line\u2028sep", "para\u2029sep\u0085nel", "nbsp\u00a0", "\u00a0lead \u3000wide",
    '<text:bookmark text:name="bm"/>', '<text:bookmark-start text:name="b2"/>', '<text:bookmark-end text:name="b2"/>',
    '<office:annotation><dc:creator>me</dc:creator><text:p>remark</text:p></office:annotation>',
    '<text:span text:style-name="T2"><text:span text:style-name="T3">deep</text:span> tail</text:span>',
]


def generated_document(rng):
    """A text document whose paragraphs put every kind of inline item next to
    every other kind (adjacency pairs), for the pretty-printing clauses."""
    from odfdo import Document, Element

    doc = Document("text")
    body = doc.body
    body.clear()
    pairs = [(a, b) for a in INLINE for b in INLINE]
    rng.shuffle(pairs)
    for a, b in pairs[: rng.randint(40, 120)]:
        c = rng.choice(INLINE)
        tag = rng.choice(("text:p", "text:p", "text:h"))
        attr = ' text:outline-level="1"' if tag == "text:h" else ""
        body.append(Element.from_tag(f"<{tag}{attr}>{a}{b}{c}</{tag}>"))
    # the same picture shown in two frames, and another one
    from odfdo import Frame, Paragraph

    uri = doc.add_file(io.BytesIO(b"\x89PNG fake picture " + str(rng.random()).encode()))
    uri2 = doc.add_file(io.BytesIO(b"\x89PNG other picture " + str(rng.random()).encode()))
    for i, u in enumerate((uri, uri2, uri)):
        par = Paragraph(f"picture {i}")
        par.append(Frame.image_frame(u, size=("1cm", "1cm"), name=f"img{i}", anchor_type="as-char"))
        body.append(par)
    # tables with trailing empty rows / cells and repeated runs (what exporters are tempted to strip)
    from . import tablelib as tl
    from .table_driver import rand_state

    for i in range(rng.randint(1, 3)):
        st = rand_state(rng, 4, 4)
        st["rows"] = [r + [0] * rng.randint(0, 3) for r in st["rows"]] + [[0, 0]] * rng.randint(0, 3)
        w = max([len(r) for r in st["rows"]], default=0)
        if rng.random() < 0.5 and w:
            st["rows"].append([0] * (w - 1) + [3])      # a value in the bottom-right corner: nothing to strip at the bottom, rows above still end with empties
        st["cols"] = [0] * (w + rng.randint(0, 2))
        if st["rows"]:
            body.append(Element.from_tag(tl.table_xml(st, "max", rng, name=f"GT{i}")))
    return doc


# ---------------------------------------------------------------- one history
# the document types of ODF 1.2 (an independent list: not read from the library's tables)
ODF_TYPES = ["application/vnd.oasis.opendocument." + t for t in (
    "text", "text-template", "spreadsheet", "spreadsheet-template", "presentation", "presentation-template", "graphics", "graphics-template",
    "chart", "chart-template", "image", "image-template", "formula", "formula-template", "text-master", "text-web")]

_PNG_A = (b"\x89PNG\r\n\x1a\n\x00\x00\x00\rIHDR\x00\x00\x00\x01\x00\x00\x00\x01\x08\x02\x00\x00\x00\x90wS\xde\x00\x00\x00\x0cIDATx\x9cc\xf8\xcf\xc0"
          b"\x00\x00\x03\x01\x01\x00\xc9\xfe\x92\xef\x00\x00\x00\x00IEND\xaeB`\x82")


def merge_source(doc_type: str):
    """A document of the same type whose first master page shows a picture and whose office:styles hold a fill image:
    the two kinds of styles merge_styles_from copies together with a part of the package."""
    from odfdo import Document, DrawFillImage, Frame

    source = Document(doc_type)
    pics = {}
    uri = source.add_file(io.BytesIO(_PNG_A))
    pics[uri] = _PNG_A
    masters = source.get_styles("master-page")
    if masters:
        masters[0].append(Frame.image_frame(uri, size=("1cm", "1cm"), position=("0cm", "0cm")))
    other = _PNG_A + b"fill"
    uri2 = source.add_file(io.BytesIO(other))
    pics[uri2] = other
    source.insert_style(DrawFillImage(name="verif_fill", url=uri2), automatic=False)
    if not masters:
        del pics[uri]
    return source, pics


def history(seed: int, nsteps: int = 10, sources=None, forced=None, forced_how=None) -> list:
    from odfdo import Document, DrawPage, Paragraph, Style, Table

    rng = random.Random(seed)
    ids = Ids()
    tmp = Path(tempfile.mkdtemp(prefix="verif_pkg_"))
    events: list = []
    try:
        sources = sources or (["generated"] * 5 + list(TEMPLATES) + [str(p) for p in sample_files()])
        src = rng.choice(sources)
        how = "template"
        if src == "generated":
            doc = generated_document(rng)
            init_parts = None
        elif src in TEMPLATES:
            doc = Document(src)
            # what a template document is, observed independently: save of the untouched doc is checked by the save rule;
            # the model starts from the document's own view
            init_parts = None
        else:
            how = forced_how or rng.choice(("path", "bytesio", "folder"))
            if how == "path":
                p = tmp / ("src" + Path(src).suffix)
                shutil.copy(src, p)
                doc = Document(p)
                init_parts, _ = read_zip(p)
            elif how == "bytesio":
                data = Path(src).read_bytes()
                doc = Document(io.BytesIO(data))
                init_parts, _ = read_zip(io.BytesIO(data))
            else:
                folder = tmp / "src.folder"
                with zipfile.ZipFile(src) as zf:
                    zf.extractall(folder)
                doc = Document(folder)
                init_parts = read_folder(folder)
        doc_type = doc.get_type()
        if init_parts is None:
            # template: take the container's parts through the public API once
            names = [n for n in doc.get_parts() if not n.endswith("/")]
            mem = {n: v for n, v in doc_view(doc, [n for n in names if n != MANIFEST], ids).items()}
            mpaths = [p for p in doc.manifest.get_paths()]
            mpaths = [str(p) for p in mpaths]
            ev = {"op": "open", "src": src, "how": how, "mem": mem, "mf": mpaths}
        else:
            mem, mpaths, _files, _ok = project_package(init_parts, ids)
            ev = {"op": "open", "src": Path(src).name, "how": how, "mem": mem, "mf": mpaths}
            if not forced_how:
                ev["view"] = doc_view(doc, rng.sample(sorted(mem), min(len(mem), 4)), ids)
        events.append(ev)
        known = set(mem)
        handles = {}
        k = 0
        saved_targets: dict = {}
        disk_targets: dict = {}
        added: dict = {}
        removed: list = []
        deleted_any = False
        gone: set = set()      # parts deleted and not added again: a later read must still find them absent

        def body_handle(fresh: bool):
            nonlocal_dummy = None  # noqa: F841
            if fresh or "body" not in handles:
                handles["body"] = doc.body
            return handles["body"]

        # one history out of five keeps saving onto the SAME file or folder while parts come and go
        resave = rng.random() < 0.2
        # one history out of six also merges the styles of another document (which brings picture parts along)
        merging = not resave and rng.random() < 0.17
        # one out of eight changes the declared type of the document on the way (mimetype part + root entry of the manifest,
        # as the library itself does when it makes a document out of a template)
        retyping = not resave and not merging and rng.random() < 0.125
        resave_pack = rng.choice(["folder", "folder", "zip", "mem", "mem"])      # "mem": one and the same io.BytesIO, again and again
        mem_target = io.BytesIO()
        if forced:
            resave = False
            merging = retyping = True
            nsteps = len(forced)
        for _ in range(nsteps):
            k += 1
            want = forced[k - 1] if forced else {}
            if forced:
                op = want["op"]
            elif resave:
                op = rng.choice(["add_file", "add_file", "del_part", "del_part", "save", "save", "save", "edit", "reopen"])
            else:
                op = rng.choice(["edit", "edit", "edit", "set_part", "del_part", "add_file", "add_file", "save", "save", "save", "reopen", "clone", "read"]
                                + (["save_twin", "save_twin"] if "twin" in handles else [])
                                + (["merge", "merge", "del_part", "save"] if merging else [])
                                + (["retype", "save", "reopen"] if retyping else []))
            ev = {"op": op}
            post_read = None
            try:
                if op == "edit":
                    which = rng.choice(["content.xml", "content.xml", "styles.xml", "meta.xml"])
                    ev["part"] = which
                    if which == "content.xml":
                        body = body_handle(rng.random() < 0.4)
                        ev["via"] = "body"
                        if doc_type == "spreadsheet" and body.get_tables():
                            body.get_table(0).set_value((rng.randint(0, 3), rng.randint(0, 3)), f"edit {k}")
                        elif doc_type in ("presentation", "drawing"):
                            body.append(DrawPage(f"page{seed}_{k}", name=f"Page {k}"))
                        else:
                            body.append(Paragraph(f"edit {k}  of <{seed}> & more"))
                        root = body._Element__element.getroottree().getroot()
                    elif which == "styles.xml":
                        doc.insert_style(Style("paragraph", name=f"verif_style_{k}"))
                        root = doc.get_part("styles.xml").root._Element__element
                    else:
                        meta = doc.meta
                        meta.title = f"title {k}"
                        root = meta.root._Element__element
                    ev["new"] = part_ids(which, etree.tostring(root), ids)
                    known.add(which)
                elif op == "set_part":
                    binaries = sorted(n for n in known if n not in XML_PARTS and n != "mimetype" and not is_xml_name(n))
                    if binaries and (rng.random() < 0.5 or want.get("binary")):
                        # replace an EXISTING binary part (set_part of a new path is low-level and not part of C03/C04's alphabet)
                        name = rng.choice(binaries)
                        data = f"binary {seed} {k}".encode()
                    else:
                        # full name or the documented shortcut ("content" for "content.xml")
                        name = rng.choice(["content.xml", "content"])
                        # a modified copy of the current content given as bytes
                        cur = doc.get_part("content.xml").serialize()
                        root0 = etree.fromstring(cur)
                        root0.set("{urn:oasis:names:tc:opendocument:xmlns:office:1.0}version", f"1.{k}")
                        data = etree.tostring(root0)
                        handles.pop("body", None)  # the caller replaced the part: old handles are void
                    doc.set_part(name, data)
                    name = "content.xml" if name == "content" else name
                    handles["last_set"] = name
                    ev["part"] = name
                    ev["new"] = part_ids(name, data, ids)
                    known.add(name)
                elif op == "del_part":
                    cands = [n for n in known if n.rsplit("/", 1)[-1] not in XML_PARTS + ("manifest.xml",) and n != "mimetype" and ("/" in n or n == "manifest.rdf")]
                    if not cands:
                        continue
                    name = rng.choice(sorted(cands))
                    if want.get("merged"):
                        cands = [n for n in cands if n in added] or cands
                        name = sorted(cands)[want["merged"] - 1] if len(cands) >= want["merged"] else sorted(cands)[0]
                    mine = sorted(n for n in cands if n in added)
                    if mine and rng.random() < 0.5 and not want.get("merged"):
                        name = rng.choice(mine)  # a file this history added: its content may be added again later
                    doc.del_part(name)
                    if name in added:
                        removed.append(added.pop(name))
                    deleted_any = True
                    ev["part"] = name
                    known.discard(name)
                    gone.add(name)
                    if rng.random() < 0.7:
                        post_read = name       # asked for straight away: it is gone, and asking does not bring it back
                elif op == "retype":
                    mt = want.get("mt") or rng.choice(ODF_TYPES)
                    doc.mimetype = mt
                    doc.manifest.set_media_type("/", mt)
                    ev["op"] = "set_part"
                    ev["part"] = "mimetype"
                    ev["new"] = part_ids("mimetype", mt.encode(), ids)
                    ev["retype"] = mt
                    known.add("mimetype")
                elif op == "merge":
                    source, pics = merge_source(doc_type)
                    doc.merge_styles_from(source)
                    handles.pop("body", None)
                    for which in ("content.xml", "styles.xml"):
                        root = doc.get_part(which).root._Element__element
                        events.append({"op": "edit", "part": which, "via": "merge", "new": part_ids(which, etree.tostring(root), ids)})
                        known.add(which)
                    ev["op"] = "read"
                    ev["view"] = {}
                    for uri, content in sorted(pics.items()):
                        events.append({"op": "merge_pic", "part": uri, "new": part_ids(uri, content, ids)})
                        known.add(uri)
                        added[uri] = content
                    ev["view"] = doc_view(doc, sorted(pics), ids)
                elif op == "add_file" and rng.random() < 0.08:
                    # a burst of distinct files, recorded as the last one (the others are separate events below)
                    for j in range(rng.randint(12, 24)):
                        c2 = f"burst {j} of {seed} step {k}".encode()
                        uri2 = doc.add_file(io.BytesIO(c2))
                        events.append({"op": "add_file", "part": uri2, "new": part_ids(uri2, c2, ids)})
                        known.add(uri2)
                    content = f"burst last of {seed} step {k}".encode()
                    uri = doc.add_file(io.BytesIO(content))
                    ev["part"] = uri
                    ev["new"] = part_ids(uri, content, ids)
                    known.add(uri)
                elif op == "add_file":
                    content = f"blob {rng.randint(0, 2)} of {seed}".encode() * 3
                    if removed and rng.random() < 0.5:
                        content = rng.choice(removed)  # the very content of a part deleted earlier
                    if rng.random() < 0.5:
                        uri = doc.add_file(io.BytesIO(content))
                    else:
                        f = tmp / f"blob{k}.bin"
                        f.write_bytes(content)
                        uri = doc.add_file(f)
                    ev["part"] = uri
                    ev["new"] = part_ids(uri, content, ids)
                    known.add(uri)
                    added[uri] = content
                elif op == "save":
                    # flat XML embeds the images the content refers to: not meaningful once a referenced part was deleted
                    packaging = rng.choice(["zip", "zip", "zip", "folder", "xml"] if not deleted_any else ["zip", "zip", "folder"])
                    packaging = want.get("packaging", packaging)
                    if resave:
                        packaging = "zip" if resave_pack == "mem" else resave_pack
                    pretty = rng.choice([False, False, True]) if packaging == "zip" else True
                    tkey = f"t{k}"
                    # one save out of three goes onto a target written by an earlier save of the same packaging
                    # (the file or folder is replaced: nothing of the earlier save may survive)
                    again = sorted(t for t, (pk, _b) in disk_targets.items() if pk == packaging)
                    base = None
                    # (not while a clone is alive: two documents backed by the same file are not independent of what is written
                    # to that file, clone or not - outside C10)
                    if again and "twin" not in handles and rng.random() < (0.9 if resave else 0.34):
                        tkey = rng.choice(again)
                        base = disk_targets[tkey][1]
                        ev["again"] = True
                    ev.update(target=tkey, packaging=packaging, pretty=pretty)
                    if packaging == "zip":
                        if resave and resave_pack == "mem":
                            target = mem_target
                            tkey = "tmem"
                            ev.update(target=tkey, again=True)
                        elif base is not None:
                            target = base
                        elif rng.random() < 0.5 and not resave:
                            target = io.BytesIO()
                        else:
                            target = tmp / f"out{k}.od"
                            disk_targets[tkey] = ("zip", target)
                        doc.save(target, pretty=pretty)
                        parts, zinfo = read_zip(target)
                        zinfo["mimetype_ok"] = parts.get("mimetype", b"").decode() == doc.mimetype
                        ev["zip"] = zinfo
                        saved_targets[tkey] = target
                    elif packaging == "folder":
                        target = base if base is not None else tmp / f"out{k}"
                        disk_targets[tkey] = ("folder", target)
                        doc.save(target, packaging="folder")
                        parts = read_folder(Path(str(target) + ".folder"))
                        saved_targets[tkey] = Path(str(target) + ".folder")
                    else:
                        target = tmp / f"out{k}.xml"
                        doc.save(target, packaging="xml")
                        ev["flat_ok"] = flat_ok(target, doc)
                        parts = None
                    if parts is not None:
                        saved, smf, smf_files, root_ok = project_package(parts, ids)
                        ev.update(saved=saved, smf=smf, smf_files=smf_files, root_media_ok=root_ok)
                    else:
                        ev.update(saved={}, smf=[], smf_files=[], root_media_ok=True, packaging="xml")
                    ev["after"] = doc_view(doc, sorted(known), ids)
                elif op == "reopen":
                    if not saved_targets:
                        continue
                    tkey = rng.choice(sorted(saved_targets))
                    t = saved_targets[tkey]
                    if isinstance(t, io.BytesIO):
                        t.seek(0)
                    doc = Document(t)
                    handles.clear()
                    ev["target"] = tkey
                    names = [n for n in doc.get_parts() if not n.endswith("/") and n != MANIFEST]
                    known = set(names)
                    gone = set()
                    ev["view"] = doc_view(doc, names, ids)
                    ev["mf_view"] = [str(p) for p in doc.manifest.get_paths()]
                elif op == "clone":
                    c = doc.clone
                    ev["view"] = doc_view(c, sorted(known), ids)
                    ev["mf_view"] = [str(p) for p in c.manifest.get_paths()]
                    handles["twin_names"] = sorted(known)
                    if rng.random() < 0.5:
                        handles["twin"] = doc
                        doc = c
                        handles.pop("body", None)
                    else:
                        handles["twin"] = c
                elif op == "save_twin":
                    target = io.BytesIO()
                    handles["twin"].save(target)
                    parts, _z = read_zip(target)
                    saved, smf, smf_files, _ok = project_package(parts, ids)
                    ev.update(saved=saved, smf=smf, smf_files=smf_files)
                else:  # read
                    absent = sorted(gone - known)
                    if want.get("last_set") and handles.get("last_set") in known:
                        ev["view"] = doc_view(doc, [handles["last_set"]], ids)
                    else:
                        ev["view"] = doc_view(doc, rng.sample(sorted(known), min(len(known), 3)) + (["content.xml"] if rng.random() < 0.5 else [])
                                          + rng.sample(absent, min(len(absent), 2)), ids, shortcut=rng.random() < 0.5)
                if "twin" in handles and rng.random() < 0.5 and op not in ("clone", "reopen"):
                    ev["twin_view"] = doc_view(handles["twin"], sorted(set(handles["twin_names"]) | known), ids)
            except Exception as ex:  # noqa: BLE001
                ev["exc"] = f"{type(ex).__name__}"
                ev["exc_detail"] = str(ex)[:200]
                events.append(ev)
                break
            if op == "reopen":
                handles.pop("twin", None)
                handles.pop("twin_names", None)
            events.append(ev)
            if post_read is not None:
                events.append({"op": "read", "view": doc_view(doc, [post_read], ids), "after_delete": True})
    finally:
        shutil.rmtree(tmp, ignore_errors=True)
    return events


def flat_ok(path: Path, doc) -> bool:
    """Flat XML export: well formed, holds the root children of each XML part,
    and the body has the same elements as content.xml (images are embedded as
    office:binary-data inside the draw:image they belong to)."""
    from collections import Counter

    try:
        root = etree.parse(str(path)).getroot()
    except etree.XMLSyntaxError:
        return False
    have = {etree.QName(c).localname for c in root if isinstance(c.tag, str)}
    need = set()
    for name in ("content.xml", "styles.xml", "meta.xml", "settings.xml"):
        try:
            part_root = doc.get_part(name).root._Element__element
        except Exception:  # noqa: BLE001
            continue
        need |= {etree.QName(c).localname for c in part_root if isinstance(c.tag, str)}
    if not need <= have:
        return False
    ons = "{urn:oasis:names:tc:opendocument:xmlns:office:1.0}"
    body_flat = root.find(ons + "body")
    body_mem = doc.get_part("content.xml").root._Element__element.find(ons + "body")
    if body_flat is None or body_mem is None:
        return False

    dimg = "{urn:oasis:names:tc:opendocument:xmlns:drawing:1.0}image"

    def tags(b):
        # what is INSIDE a draw:image is replaced by the embedded data (lossy by design): not compared
        out = Counter()
        for e in b.iter():
            if not isinstance(e.tag, str):
                continue
            if any(a.tag == dimg for a in e.iterancestors()):
                continue
            out[e.tag] += 1
        return out

    if tags(body_flat) != tags(body_mem):
        return False
    # every picture the content refers to and the package holds is embedded (same bytes), in document order
    import base64

    href = "{http://www.w3.org/1999/xlink}href"
    flat_imgs = list(body_flat.iter(dimg))        # (the pictures of the body; those of master pages are not looked at)
    mem_imgs = list(body_mem.iter(dimg))
    if len(flat_imgs) != len(mem_imgs):
        return False
    for f, m in zip(flat_imgs, mem_imgs):
        url = m.get(href)
        if not url:
            continue
        try:
            data = doc.get_part(url[2:] if url.startswith("./") else url)
        except Exception:  # noqa: BLE001
            data = None
        if not isinstance(data, bytes):
            continue      # not a part of this package (external picture, deleted part): nothing to embed
        bd = f.find(ons + "binary-data")
        if bd is None or base64.b64decode((bd.text or "").encode()) != data:
            return False
    return True


def lazy_clone_history(seed: int) -> list:
    """C10, lazily loaded parts: a document opened from a zip PATH (parts are
    read on demand), some parts read, N files added in memory, then cloned;
    the clone must hold every part (also the never-read ones) and be savable."""
    from odfdo import Document

    rng = random.Random(seed)
    ids = Ids()
    tmp = Path(tempfile.mkdtemp(prefix="verif_lazy_"))
    events: list = []
    try:
        if rng.random() < 0.4:
            src = rng.choice(TEMPLATES)
            p = tmp / "tpl.od"
            Document(src).save(p)
        else:
            src = str(rng.choice(sample_files()))
            p = tmp / ("src" + Path(src).suffix)
            shutil.copy(src, p)
        doc = Document(p)
        parts, _ = read_zip(p)
        mem, mpaths, _f, _ok = project_package(parts, ids)
        events.append({"op": "open", "src": Path(src).name, "how": "path", "mem": mem, "mf": mpaths})
        known = set(mem)
        for name in rng.sample(sorted(known), rng.randint(0, 3)):
            doc_view(doc, [name], ids)  # read (and so load) a few parts only
        for j in range(rng.choice([0, 1, 3, 8, 14, 16, 20, 30])):
            c = f"lazy {seed} {j}".encode()
            uri = doc.add_file(io.BytesIO(c))
            events.append({"op": "add_file", "part": uri, "new": part_ids(uri, c, ids)})
            known.add(uri)
        ev = {"op": "clone"}
        try:
            clone = doc.clone
            ev["view"] = doc_view(clone, sorted(known), ids)
            ev["mf_view"] = [str(x) for x in clone.manifest.get_paths()]
            events.append(ev)
            ev = {"op": "save_twin"}
            target = io.BytesIO()
            clone.save(target)
            zparts, _z = read_zip(target)
            saved, smf, smf_files, _ok = project_package(zparts, ids)
            ev.update(saved=saved, smf=smf, smf_files=smf_files)
            events.append(ev)
        except Exception as ex:  # noqa: BLE001
            ev["exc"] = type(ex).__name__
            ev["exc_detail"] = str(ex)[:200]
            events.append(ev)
    finally:
        shutil.rmtree(tmp, ignore_errors=True)
    return events


def _gen(args):
    seed, n, sources = args
    if isinstance(sources, tuple) and sources[0] == "setpart-sweep":
        # a part that was not read yet replaced straight after opening (folder / path / memory), then saved, cloned, read
        i = sources[1]
        files = [str(p) for p in sample_files()]
        return history(seed, 6, [files[i % len(files)]], forced_how=("folder", "path", "folder", "bytesio")[i // len(files) % 4],
                       forced=[{"op": "set_part", "binary": True}, {"op": "read", "last_set": True}, {"op": "save", "packaging": ("zip", "folder")[i % 2]}, {"op": "clone"},
                               {"op": "save_twin"}, {"op": "read"}])
    if isinstance(sources, tuple) and sources[0] == "merge-sweep":
        # the styles of another document merged, one of the pictures they brought deleted, merged again, saved, reopened
        i = sources[1]
        kinds = ["text", "spreadsheet", "presentation", "drawing"]
        return history(seed, 7, [kinds[i % 4]],
                       forced=[{"op": "merge"}, {"op": "save", "packaging": "zip"}, {"op": "del_part", "merged": 1 + (i // 4) % 2}, {"op": "merge"},
                               {"op": "save", "packaging": ("zip", "folder")[(i // 8) % 2]}, {"op": "reopen"}, {"op": "read"}])
    if isinstance(sources, tuple) and sources[0] == "flat-sweep":
        # every sample file, opened in each way and exported to flat XML before anything else was read, then again after a zip save
        i = sources[1]
        files = [str(p) for p in sample_files()]
        return history(seed, 3, [files[i % len(files)]], forced_how=("path", "bytesio", "folder")[i // len(files) % 3],
                       forced=[{"op": "save", "packaging": "xml"}, {"op": "save", "packaging": "zip"}, {"op": "save", "packaging": "xml"}])
    if isinstance(sources, tuple) and sources[0] == "retype-sweep":
        # every document type of the standard x every packaging: declared, saved, reopened
        i = sources[1]
        mt = ODF_TYPES[i % len(ODF_TYPES)]
        pack = ("zip", "folder", "zip")[i // len(ODF_TYPES) % 3]
        return history(seed, 4, ["text", "spreadsheet", "presentation", "drawing"][i % 4:][:1],
                       forced=[{"op": "retype", "mt": mt}, {"op": "save", "packaging": pack}, {"op": "reopen"}, {"op": "read"}])
    if sources == "lazy-clone":
        return lazy_clone_history(seed)
    return history(seed, n, sources)


def generate(ntraces: int, seed: int, nsteps: int = 10, procs=None, sources=None) -> list:
    procs = procs or min(16, os.cpu_count() or 4)
    jobs = [(seed * 1_000_033 + i, nsteps, sources) for i in range(ntraces)]
    if sources == "setpart-sweep":
        jobs = [(seed * 1_000_033 + i, nsteps, ("setpart-sweep", i)) for i in range(min(24, 2 * len(sample_files())))]
    if sources == "merge-sweep":
        jobs = [(seed * 1_000_033 + i, nsteps, ("merge-sweep", i)) for i in range(16)]
    if sources == "flat-sweep":
        jobs = [(seed * 1_000_033 + i, nsteps, ("flat-sweep", i)) for i in range(3 * len(sample_files()))]
    if sources == "retype-sweep":
        jobs = [(seed * 1_000_033 + i, nsteps, ("retype-sweep", i)) for i in range(3 * len(ODF_TYPES))]
    with mp.get_context("fork").Pool(procs) as pool:
        return pool.map(_gen, jobs, chunksize=max(1, ntraces // (procs * 4)))


def validate(traces: list, timeout: int = 1200):
    fd, path = tempfile.mkstemp(prefix="verif_pkgtraces_", suffix=".json")
    try:
        with os.fdopen(fd, "w") as f:
            json.dump(traces, f)
        cfg = make_cfg(spec="Spec", invariants=["Report"])
        res = run_tlc("PackageTrace", cfg, workers=1, timeout=timeout, env={"TRACE_FILE": path}, heap="8g")
    finally:
        Path(path).unlink(missing_ok=True)
    rep = None
    for p in res.printed:
        if isinstance(p, dict) and "verdicts" in p:
            rep = p
    return res, rep


def harvest_repo_save_calls(paths=("tests/test_document.py", "tests/test_document_add_file.py", "tests/test_document_blob.py", "tests/test_document_template.py",
                                  "tests/test_document_xml.py", "tests/test_container.py", "tests/test_image.py", "tests/test_use_case1.py",
                                  "tests/test_use_case2.py", "tests/test_use_case3.py", "tests/test_manifest.py", "tests/test_meta.py"), timeout=1200):
    """Run the repository's own tests under the external tracing plugin; every Document.save they make becomes a
    two-event PackageTrace trace (belief = what the document answered just before the call)."""
    import subprocess

    fd, path = tempfile.mkstemp(prefix="verif_harvest_pkg_", suffix=".ndjson")
    os.close(fd)
    try:
        env = dict(os.environ, ODFDO_VERIF="1", ODFDO_VERIF_PKG="1", ODFDO_VERIF_TRACE=path,
                   PYTHONPATH=str(Path(__file__).resolve().parent.parent) + os.pathsep + str(REPO / "src"))
        have = [p for p in paths if (REPO / p).exists()]
        r = subprocess.run(["/venv/bin/python", "-m", "pytest", "-q", "-p", "no:cacheprovider", "-p", "harness.pytest_trace_plugin", *have],
                           cwd=REPO, env=env, capture_output=True, text=True, timeout=timeout)
        traces, tests = [], []
        skipped = 0
        for line in Path(path).read_text().splitlines():
            try:
                ev = json.loads(line)
            except ValueError:
                continue
            if ev.get("kind") == "pkg":
                o = ev["trace"][0]
                listed = {p for p in o["mf"] if p != "/" and not p.endswith("/")}
                held = {n for n, v in o["mem"].items() if v["s"] != 0 and n != "mimetype"}
                if listed != held:
                    skipped += 1      # the test built a package whose manifest does not describe it: outside the properties' alphabet
                    continue
                traces.append(ev["trace"])
                tests.append(ev["test"])
        return r.returncode, traces, tests, f"skipped_inconsistent_prestate={skipped} " + r.stdout[-200:]
    finally:
        Path(path).unlink(missing_ok=True)
