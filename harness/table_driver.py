"""Binding B for tables: seeded random histories of the real odfdo.Table /
Row, recorded as traces and validated by TLC against Grid.tla
(spec/GridTrace.tla)."""

from __future__ import annotations

import json
import multiprocessing as mp
import os
import random
import tempfile
from pathlib import Path

from . import tablelib as tl
from .tlc import make_cfg, run_tlc

VALS = [1, 2, 3, tl.S, tl.E, tl.E, tl.Z, tl.K]


def rand_row(rng, maxw=5):
    return [rng.choice(VALS) for _ in range(rng.randint(0, maxw))]


def rand_state(rng, maxh=5, maxw=5):
    h = rng.randint(0, maxh)
    rows = []
    for _ in range(h):
        if rows and rng.random() < 0.4:
            rows.append(list(rows[-1]))  # equal neighbours -> repeatable rows
        else:
            r = []
            for _ in range(rng.randint(0, maxw)):
                if r and rng.random() < 0.5:
                    r.append(r[-1])
                else:
                    r.append(rng.choice(VALS))
            rows.append(r)
    if rows and rng.random() < 0.25:
        # the table ends with several equal empty rows (stored as one repeated row by the compressed encodings)
        empty = [tl.E] * rng.choice((0, 1, max(len(r) for r in rows)))
        rows.extend(list(empty) for _ in range(rng.randint(2, 3)))
    w = max([len(r) for r in rows], default=0)
    if rows:
        w = max(1, w)
    w += rng.choice((0, 0, 1, 2)) if rows or rng.random() < 0.3 else 0
    cols = [rng.choice((0, 0, 1)) for _ in range(w)]
    return {"rows": rows, "cols": cols}


ALL_OPS = [
    "set_cell", "set_cell", "set_value", "insert_cell", "append_cell", "delete_cell",
    "set_row", "insert_row", "append_row", "delete_row", "set_row_values", "set_values",
    "insert_column", "append_column", "set_column", "delete_column", "set_column_cells",
    "transpose", "rstrip", "optimize_width", "csv", "extend_rows", "clear", "transpose_area",
]
OPS = list(ALL_OPS)  # a check may narrow / re-weight this before generate()


def rand_op(rng, state, maxn=4):
    h = len(state["rows"])
    w = len(state["cols"])
    y = rng.choice([rng.randint(0, max(0, h - 1)), h, h + 1, rng.randint(0, h + 2)])
    rw = len(state["rows"][y]) if y < h else 0
    x = rng.choice([rng.randint(0, max(0, rw - 1)), rw, rw + 1, rng.randint(0, w + 2)])
    n = rng.choice([1, 1, 1, 2, 3, maxn])
    c = rng.choice(VALS)
    kind = rng.choice(OPS)
    if kind in ("set_cell", "insert_cell"):
        return {"op": kind, "x": x, "y": y, "c": c, "n": n}
    if kind == "set_value":
        return {"op": kind, "x": x, "y": y, "c": rng.choice([1, 2, 3, tl.E, tl.Z])}
    if kind == "append_cell":
        return {"op": kind, "y": y, "c": c, "n": n}
    if kind == "delete_cell":
        return {"op": kind, "x": x, "y": y}
    if kind in ("set_row", "insert_row"):
        return {"op": kind, "y": y, "r": rand_row(rng), "n": n}
    if kind == "append_row":
        return {"op": kind, "r": rand_row(rng), "n": n}
    if kind == "delete_row":
        return {"op": kind, "y": y}
    if kind == "set_row_values":
        return {"op": kind, "y": y, "r": [rng.choice([1, 2, 3, tl.E, tl.Z]) for _ in range(rng.randint(0, 5))]}
    if kind == "set_values":
        m = [[rng.choice([1, 2, 3, tl.E, tl.Z]) for _ in range(rng.randint(0, 3))] for _ in range(rng.randint(1, 3))]
        return {"op": kind, "x": rng.randint(0, w + 1), "y": y, "m": m}
    xc = rng.choice([rng.randint(0, max(0, w - 1)), w, w + 1])
    if kind in ("insert_column", "set_column"):
        return {"op": kind, "x": xc, "c": rng.choice((0, 1, 2)), "n": n}
    if kind == "append_column":
        return {"op": kind, "c": rng.choice((0, 1, 2)), "n": n}
    if kind == "delete_column":
        return {"op": kind, "x": xc}
    if kind == "set_column_cells":
        if h == 0:
            return {"op": "delete_column", "x": xc}
        return {"op": kind, "x": xc, "r": [rng.choice(VALS) for _ in range(h)]}
    if kind == "clear":
        # rare: a cleared table makes the rest of a history trivial
        return {"op": "clear"} if rng.random() < 0.25 else {"op": "append_row", "r": rand_row(rng), "n": n}
    if kind == "extend_rows":
        return {"op": kind, "rs": [{"r": rand_row(rng), "n": rng.choice([1, 1, 2, maxn])} for _ in range(rng.randint(0, 3))]}
    if kind == "transpose_area":
        if not w or not h:
            return {"op": "transpose"}
        x0 = rng.randint(0, w - 1)
        y0 = rng.randint(0, h - 1)
        return {"op": kind, "x": x0, "y": y0, "z": rng.randint(x0, w), "t": rng.randint(y0, h)}
    if kind in ("transpose", "optimize_width", "csv"):
        return {"op": kind}
    return {"op": "rstrip", "c": rng.choice((0, 1))}


def rand_row_op(rng, row):
    w = len(row)
    x = rng.choice([rng.randint(0, max(0, w - 1)), w, w + 1, w + 3])
    n = rng.choice([1, 1, 2, 3, 5])
    c = rng.choice(VALS)
    kind = rng.choice(["row_set_cell", "row_set_cell", "row_insert_cell", "row_append_cell", "row_delete_cell", "row_set_values", "row_rstrip"] * 3 + ["row_clear"])
    if kind == "row_clear":
        return {"op": kind}
    if kind in ("row_set_cell", "row_insert_cell"):
        return {"op": kind, "x": x, "c": c, "n": n}
    if kind == "row_append_cell":
        return {"op": kind, "c": c, "n": n}
    if kind == "row_delete_cell":
        return {"op": kind, "x": x}
    if kind == "row_set_values":
        return {"op": kind, "x": x, "r": [rng.choice([1, 2, 3, tl.E, tl.Z]) for _ in range(rng.randint(0, 4))]}
    return {"op": "row_rstrip", "c": rng.choice((0, 1))}


def csv_round_trip(table) -> list:
    """to_csv then import_from_csv; the values read back, empty string == None."""
    import io

    from odfdo.table import import_from_csv

    text = table.to_csv()
    t2 = import_from_csv(io.StringIO(text), "T2", delimiter=",")
    out = []
    for r in t2.traverse():
        vals = [None if v == "" else v for v in r.get_values()]
        while vals and vals[-1] is None:
            vals.pop()
        out.append([tl.val_code(v) for v in vals])
    return out


def strip(p):
    return {"rows": p["rows"], "cols": p["cols"]}


def table_history(seed: int, nsteps: int = 12, with_clone: bool = False) -> list:
    """One recorded history of a real Table.  With with_clone, the table is
    cloned at a random step (caches warmed by the reads before it) and the
    history continues on both objects in a random interleaving; every event
    then also records what the object NOT acted upon looks like (C10)."""
    from odfdo import Element, Table

    rng = random.Random(seed)
    how = rng.choice(["empty", "prefilled", "xml", "xml", "xml"])
    if how == "empty":
        table = Table("T")
    elif how == "prefilled":
        table = Table("T", width=rng.randint(1, 4), height=rng.randint(1, 4))
    else:
        table = tl.build_table(rand_state(rng), rng.choice(("max", "none", "rand")), rng)
    objs = {"a": table}
    states = {"a": strip(tl.xml_project(table.serialize()))}
    clone_at = rng.randint(0, max(0, nsteps - 3)) if with_clone else -1
    events = []
    for step in range(nsteps):
        if step == clone_at:
            tl.live_reads(objs["a"], [k for k in tl.READ_KINDS if rng.random() < 0.5])
            ev = {"kind": "table", "op": {"op": "clone"}}
            if not events:
                ev["pre"] = states["a"]
            try:
                objs["b"] = objs["a"].clone
                ev["twin"] = strip(tl.xml_project(objs["b"].serialize()))
            except Exception as ex:  # noqa: BLE001
                ev["exc"] = type(ex).__name__
                ev["twin"] = states["a"]
            ev["post"] = strip(tl.xml_project(objs["a"].serialize()))
            states["b"] = ev["twin"]
            events.append(ev)
            if "exc" in ev:
                break
            continue
        side = rng.choice(sorted(objs))
        table = objs[side]
        state = states[side]
        # cache-filling reads before the mutation
        kinds = [k for k in tl.READ_KINDS if rng.random() < 0.3]
        try:
            tl.live_reads(table, kinds)
        except Exception:  # noqa: BLE001, S110
            pass
        o = rand_op(rng, state)
        if o["op"] == "optimize_width" and events and events[-1]["op"]["op"] == "optimize_width" and events[-1].get("side", "a") == side:
            o["again"] = 1
        if o["op"] == "csv" and (len(state["cols"]) < 2 or not state["rows"]):
            o = {"op": "optimize_width"}
        ev = {"kind": "table", "op": o}
        if "b" in objs:
            ev["side"] = side
        if not events:
            ev["pre"] = state
        try:
            if o["op"] == "csv":
                ev["values"] = csv_round_trip(table)
            else:
                tl.apply_op(table, o, rng, rng.choice(("max", "none", "rand")))
        except Exception as ex:  # noqa: BLE001
            ev["exc"] = type(ex).__name__
        xml = table.serialize()
        proj = tl.xml_project(xml)
        ev["post"] = strip(proj)
        ev["bad"] = sorted(set(proj["bad"]))
        if "b" in objs:
            other = objs["b" if side == "a" else "a"]
            ev["other"] = strip(tl.xml_project(other.serialize()))
        post_kinds = [k for k in tl.READ_KINDS if rng.random() < 0.6]
        try:
            ev["live"] = tl.live_reads(table, post_kinds)
        except Exception as ex:  # noqa: BLE001
            ev["exc"] = "read:" + type(ex).__name__
        if rng.random() < 0.4:
            try:
                ev["fresh"] = tl.live_reads(Element.from_tag(xml), post_kinds)
            except Exception as ex:  # noqa: BLE001
                ev["exc"] = "fresh:" + type(ex).__name__
        events.append(ev)
        states[side] = ev["post"]
        if "exc" in ev:
            break  # object possibly inconsistent: stop this history
    return events


def row_history(seed: int, nsteps: int = 10) -> list:
    from odfdo import Row

    rng = random.Random(seed)
    if rng.random() < 0.3:
        row = Row(width=rng.randint(0, 4))
    else:
        cells = []
        for _ in range(rng.randint(0, 6)):
            cells.append(cells[-1] if cells and rng.random() < 0.5 else rng.choice(VALS))
        row = tl.make_row(cells, 1, rng.choice(("max", "none", "rand")), rng)
    state = _row_project(row)
    events = []
    for _ in range(nsteps):
        if rng.random() < 0.4:
            list(row.traverse())
        o = rand_row_op(rng, state)
        ev = {"kind": "row", "op": o}
        if not events:
            ev["pre"] = state
        try:
            tl.apply_row_op(row, o, rng)
        except Exception as ex:  # noqa: BLE001
            ev["exc"] = type(ex).__name__
        ev["post"] = _row_project(row)
        try:
            ev["live"] = [tl.live_cell_code(c) for c in row.traverse()]
            if len(ev["live"]) != row.width:
                ev["exc"] = "width"
        except Exception as ex:  # noqa: BLE001
            ev["exc"] = "read:" + type(ex).__name__
        events.append(ev)
        state = ev["post"]
        if "exc" in ev:
            break
    return events


def _row_project(row) -> list:
    xml = "<table:table>" + row.serialize() + "</table:table>"
    p = tl.xml_project(xml)
    return p["rows"][0] if p["rows"] else []


def _gen(args):
    kind, seed, n = args
    if kind == "clone":
        return table_history(seed, n, with_clone=True)
    return table_history(seed, n) if kind == "table" else row_history(seed, n)


def generate(ntraces: int, seed: int, nsteps: int = 12, row_share: float = 0.25, procs=None, ops=None, clones: bool = False) -> list:
    global OPS
    OPS = list(ops) if ops else list(ALL_OPS)
    procs = procs or min(16, os.cpu_count() or 4)
    jobs = []
    for i in range(ntraces):
        kind = "row" if (i % 100) < row_share * 100 else "table"
        if clones:
            kind = "clone"
        jobs.append((kind, seed * 1_000_003 + i, nsteps))
    with mp.get_context("fork").Pool(procs) as pool:
        traces = pool.map(_gen, jobs, chunksize=max(1, ntraces // (procs * 4)))
    return [t for t in traces if t]


READ_DEPTH = {"size": 1, "matrix": 2, "widths": 1, "vals": 2, "cells": 2, "rows": 2, "rowvals": 2, "colvals": 2,
              "colcells": 2, "traverse": 2, "columns": 1}


def sanitize(traces: list) -> list:
    """Drop (and report) recorded answers whose shape TLC could not compare;
    returns verdict-like records for them (see common.shape_ok)."""
    from .common import shape_ok

    out = []
    for ti, tr in enumerate(traces):
        for li, ev in enumerate(tr):
            for side in ("live", "fresh"):
                if side in ev and isinstance(ev[side], dict):
                    for k in list(ev[side]):
                        if not shape_ok(ev[side][k], READ_DEPTH.get(k, 2)):
                            out.append({"tid": ti + 1, "l": li + 1, "clause": side, "what": k + ":malformed"})
                            del ev[side][k]
                elif side in ev and ev["kind"] == "row" and not shape_ok(ev[side], 1):
                    out.append({"tid": ti + 1, "l": li + 1, "clause": side, "what": "row:malformed"})
                    del ev[side]
    return out


def validate(traces: list, timeout: int = 1200):
    """Run TLC on GridTrace.tla over the recorded traces.
    Returns (TlcResult, verdict list)."""
    malformed = sanitize(traces)
    fd, path = tempfile.mkstemp(prefix="verif_traces_", suffix=".json")
    try:
        with os.fdopen(fd, "w") as f:
            json.dump(traces, f)
        cfg = make_cfg(spec="Spec", invariants=["Report"])
        res = run_tlc("GridTrace", cfg, workers=1, timeout=timeout, env={"TRACE_FILE": path}, heap="8g")
    finally:
        Path(path).unlink(missing_ok=True)
    verdicts = None
    for p in res.printed:
        if isinstance(p, dict) and "verdicts" in p:
            verdicts = p
    if verdicts is not None:
        verdicts["verdicts"] = list(verdicts["verdicts"]) + malformed
    return res, verdicts
