"""Binding for Para.tla: node sequences <-> real Paragraph / Header / Span."""

from __future__ import annotations

import json
import os
import tempfile
from pathlib import Path
from xml.sax.saxutils import escape

from lxml import etree

from . import odftext
from . import tablelib as tl
from .tlc import make_cfg, run_tlc

TX = odftext.TX


def chars(cps) -> str:
    return "".join(map(chr, cps))


def cps(s: str) -> list:
    return [ord(c) for c in s]


def nodes_xml(nodes: list) -> str:
    out = []
    for n in nodes:
        k = n["k"]
        if k == "t":
            out.append(escape(chars(n["s"])))
        elif k == "s":
            out.append("<text:s/>" if n["c"] == 1 else f'<text:s text:c="{n["c"]}"/>')
        elif k == "tab":
            out.append("<text:tab/>")
        elif k == "lb":
            out.append("<text:line-break/>")
    return "".join(out)


def build(kind: str, nodes: list):
    from odfdo import Element

    tag = {"Paragraph": "text:p", "Header": 'text:h text:outline-level="1"', "Span": "text:span"}[kind]
    close = tag.split()[0]
    return Element.from_tag(f"<{tag}>{nodes_xml(nodes)}</{close}>")


def project(el) -> list:
    """Top-level node sequence of a paragraph-like element (independent lxml walk).
    A non white-space child element is reported as {'k': 'el', 'tag': ...}."""
    root = tl.parse_wrapped(el.serialize())[0]
    out = []

    def text(s):
        if s:
            if out and out[-1]["k"] == "t":
                out[-1]["s"] += cps(s)
            else:
                out.append({"k": "t", "s": cps(s)})

    text(root.text)
    for ch in root:
        if ch.tag == odftext.S_TAG:
            out.append({"k": "s", "c": odftext.spaces_of(ch)})
        elif ch.tag == odftext.TAB_TAG:
            out.append({"k": "tab"})
        elif ch.tag == odftext.LB_TAG:
            out.append({"k": "lb"})
        else:
            out.append({"k": "el", "tag": etree.QName(ch).localname})
        text(ch.tail)
    return out


def lxml_root(el):
    return tl.parse_wrapped(el.serialize())[0]


def record(kind: str, chunks: list[str]) -> dict:
    """Build the object from the first piece, append the others, observe."""
    from odfdo import Element, Header, Paragraph, Span

    first = chunks[0] if chunks else ""
    if kind == "Paragraph":
        obj = Paragraph(first)
    elif kind == "Header":
        obj = Header(1, first)
    else:
        obj = Span(first)
    for ch in chunks[1:]:
        obj.append_plain_text(ch)
    rec = {"kind": kind, "chunks": [cps(c) for c in chunks]}
    rec["nodes"] = project(obj)
    rec["text"] = cps(obj.inner_text)
    rec["reparsed"] = cps(Element.from_tag(obj.serialize()).inner_text)
    return rec


def validate(records: list, timeout: int = 900):
    fd, path = tempfile.mkstemp(prefix="verif_para_", suffix=".json")
    try:
        with os.fdopen(fd, "w") as f:
            json.dump(records, f)
        cfg = make_cfg(spec="Spec", invariants=["Report"])
        res = run_tlc("ParaTrace", cfg, workers=1, timeout=timeout, env={"TRACE_FILE": path}, heap="8g")
    finally:
        Path(path).unlink(missing_ok=True)
    rep = None
    for p in res.printed:
        if isinstance(p, dict) and "verdicts" in p:
            rep = p
    return res, rep
