--------------------------- MODULE RegistryTrace ---------------------------
(***************************************************************************)
(* Trace validation for C12: one record per instance built by the real      *)
(* constructors with generated arguments.  Recorded: the class, the tag of   *)
(* the element it produced, the class Element.from_tag gives back for its    *)
(* serialisation (and the classes met through children / get_elements /      *)
(* xpath / parent / clone / get_element), whether the infoset is equal       *)
(* (C14N), and for every generic property: the constructor argument given    *)
(* (when one has the same name), the value read after construction and       *)
(* after re-parsing, all as strings of the codec's domain.                   *)
(***************************************************************************)
EXTENDS Naturals, Sequences, FiniteSets, TLC, Json, IOUtils, TLCExt

Records == JsonDeserialize(IOEnv.TRACE_FILE)
Has(r, f) == f \in DOMAIN r
Norm(v) == CASE v = "true" -> "<True>" [] v = "false" -> "<False>" [] OTHER -> v

Verdict(r) ==
    IF Has(r, "exc") THEN {"exc:" \o r.exc}
    ELSE (IF r.reparsed_class # r.class THEN {"reparsed-as-another-class"} ELSE {})
    \cup (IF \E i \in 1..Len(r.paths) : r.paths[i].class # r.class THEN {"access-path-gives-another-class"} ELSE {})
    \cup (IF ~r.infoset_equal THEN {"infoset-differs-after-reparse"} ELSE {})
    \cup (IF ~r.wellformed THEN {"not-well-formed-namespaced-xml"} ELSE {})
    \cup (IF \E i \in 1..Len(r.props) : r.props[i].after # r.props[i].reparsed THEN {"property-differs-after-reparse"} ELSE {})
    \cup (IF \E i \in 1..Len(r.props) : r.props[i].given # "<absent>" /\ r.props[i].after # Norm(r.props[i].given)
          THEN {"constructor-argument-not-visible"} ELSE {})
    \cup (IF \E i \in 1..Len(r.props) : r.props[i].set # "<absent>" /\ r.props[i].after_set # Norm(r.props[i].set)
          THEN {"property-set-get"} ELSE {})
    \cup (IF Has(r, "args_read") /\ r.args_read # <<>> THEN {"constructor-argument-not-readable"} ELSE {})
    \cup (IF Has(r, "stale") /\ r.stale # <<>> THEN {"property-stale-after-assignment"} ELSE {})
    (* "at any depth": the same element parsed as the second of two instances in one parent answers the same *)
    \cup (IF Has(r, "context") /\ r.context # <<>> THEN {"property-differs-inside-a-document"} ELSE {})

VARIABLES l, bad
vars == <<l, bad>>
Init == l = 1 /\ bad = {}
Next == /\ l <= Len(Records)
        /\ bad' = bad \cup {[l |-> l, clause |-> c] : c \in Verdict(Records[l])}
        /\ l' = l + 1
Spec == Init /\ [][Next]_vars
Done == l > Len(Records)
Report == Done => PrintT(ToJson([verdicts |-> bad, records |-> Len(Records)]))
=============================================================================
