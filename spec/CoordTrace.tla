----------------------------- MODULE CoordTrace -----------------------------
(***************************************************************************)
(* C19 - all ways of addressing cells agree.                               *)
(* An event is one read of a real table through one method and one          *)
(* concrete coordinate FORM (string "B2:C3", 4-tuple, 2-tuple, partial      *)
(* "A:C" / "2:3", negative numbers counted from the end).  The event also   *)
(* carries the ABSTRACT area (x, y, z, t) the form stands for; the expected *)
(* answer is a function of the abstract area only (Grid.tla), so all forms  *)
(* must give the same - the specified - answer, bounded on both sides.      *)
(***************************************************************************)
EXTENDS Grid, Json, IOUtils, TLCExt

Events == JsonDeserialize(IOEnv.TRACE_FILE)
Has(r, f) == f \in DOMAIN r

RowCellsOf(t, y, x, z) ==
    LET r == RowAt(t, y) IN SubSeq(r, x + 1, Min(z + 1, Len(r)))
CellsArea(t, x, y, z, tt) ==
    LET last == Min(tt, Height(t) - 1)
    IN [i \in 1..Max(0, last - y + 1) |-> RowCellsOf(t, y + i - 1, x, z)]
RowsRange(t, y, tt) ==
    LET last == Min(tt, Height(t) - 1)
    IN [i \in 1..Max(0, last - y + 1) |-> RowAt(t, y + i - 1)]
ColsRange(t, x, z) ==
    LET last == Min(z, Width(t) - 1)
    IN [i \in 1..Max(0, last - x + 1) |-> t.cols[x + i]]
VMat(m) == [i \in 1..Len(m) |-> VSeq(m[i])]
(* cell_type = "all" / "float": the cells that carry a value type (every value of the alphabet is a float; 8 is the typed *)
(* zero written without text); complete = TRUE keeps one entry per cell (none for the others) and completes the line to   *)
(* the width asked for, complete = FALSE keeps the typed ones only                                                      *)
Typed(c) == c \in 1..8
TypedLine(r, complete, width) ==
    IF complete THEN PadTo([i \in 1..Len(r) |-> IF Typed(r[i]) THEN r[i] ELSE E], width, E)
    ELSE SelectSeq(r, Typed)
RECURSIVE Flatten(_)
Flatten(m) == IF m = <<>> THEN <<>> ELSE Head(m) \o Flatten(Tail(m))

Expected(ev) ==
    LET t == ev.pre a == ev.a
    IN CASE ev.method = "get_value"  -> V(Value(t, a.x, a.y))
         [] ev.method = "get_cell"   -> Value(t, a.x, a.y)
         [] ev.method = "get_values" -> VMat(Area(t, a.x, a.y, a.z, a.t))
         [] ev.method = "get_cells"  -> CellsArea(t, a.x, a.y, a.z, a.t)
         [] ev.method = "get_rows"   -> RowsRange(t, a.y, a.t)
         [] ev.method = "get_columns" -> ColsRange(t, a.x, a.z)
         (* keyword forms of the same reads: one flat list; only the columns of one style *)
         [] ev.method = "get_values_flat" -> Flatten(VMat(Area(t, a.x, a.y, a.z, a.t)))
         [] ev.method = "get_cells_flat"  -> Flatten(CellsArea(t, a.x, a.y, a.z, a.t))
         [] ev.method = "get_columns_style" -> SelectSeq(ColsRange(t, a.x, a.z), LAMBDA c : c = a.s)
         [] ev.method = "get_values_typed" ->
               LET m == CellsArea(t, a.x, a.y, a.z, a.t)
               IN [i \in 1..Len(m) |-> TypedLine(m[i], a.complete, Max(0, Min(a.z + 1, Width(t)) - a.x))]
         (* get_cells(coord, style= / cell_type= / content=): per line, the cells of the area that pass the filter             *)
         (* ("ce1" is the style of the styled empty cell S; "k" is the text of the untyped text cell K)                         *)
         [] ev.method = "get_cells_filtered" ->
               LET m == CellsArea(t, a.x, a.y, a.z, a.t)
                   keep(c) == CASE a.f = "style" -> c = S
                                [] a.f = "typed" -> Typed(c)
                                [] a.f = "content" -> c = K
               IN [i \in 1..Len(m) |-> SelectSeq(m[i], keep)]
         [] ev.method = "get_column_values_typed" ->
               LET col == [y \in 1..Height(t) |-> Value(t, a.x, y - 1)]
               IN IF a.complete THEN [y \in 1..Height(t) |-> IF Typed(col[y]) THEN col[y] ELSE E] ELSE SelectSeq(col, Typed)
         [] ev.method = "get_row"    -> RowAt(t, a.y)
         [] ev.method = "get_column_values" -> VSeq(ColumnValues(t, a.x))
         [] ev.method = "row_get_values" -> VSeq(RowCellsOf(t, a.y, a.x, a.z))

Verdict(ev) ==
    IF Has(ev, "exc") THEN {"exc"}
    ELSE IF ev.got # Expected(ev) THEN {"answer"} ELSE {}

VARIABLES l, bad
vars == <<l, bad>>
Init == l = 1 /\ bad = {}
Next == /\ l <= Len(Events)
        /\ bad' = bad \cup {[l |-> l, clause |-> c] : c \in Verdict(Events[l])}
        /\ l' = l + 1
Spec == Init /\ [][Next]_vars
Done == l > Len(Events)
Report == Done => PrintT(ToJson([verdicts |-> bad, events |-> Len(Events)]))
=============================================================================
