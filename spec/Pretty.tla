------------------------------- MODULE Pretty -------------------------------
(***************************************************************************)
(* C11 - pretty printing changes layout only.                              *)
(*                                                                         *)
(* The indentation function of odfdo (container.py: pretty_indent) on      *)
(* labelled trees.  A node is [k, text, tail, ch]:                          *)
(*   k = "B"  structural element (office:text, text:section, note-body ...)  *)
(*       "P"  paragraph or heading            (in TEXT_CONTENT)              *)
(*       "T"  inline text element, span, link (in TEXT_CONTENT)              *)
(*       "C"  character element text:s / text:tab / text:line-break          *)
(*       "O"  object anchored in the text: note, annotation, frame           *)
(* For the indentation function B, C and O are the same thing (a tag that   *)
(* is not in TEXT_CONTENT); they differ in what a consumer reads.            *)
(* Characters: 1 = a letter, 0 = a blank, 100 + n = line feed followed by n  *)
(* indentation units.                                                       *)
(*                                                                         *)
(* Paras(doc) is what an ODF consumer reads: the text of every paragraph    *)
(* after the white-space processing of ODF 1.2 part 1, 6.1.2, objects being  *)
(* opaque tokens whose own paragraphs are read separately.                  *)
(* TLC enumerates every document of a bounded family and checks             *)
(*     Paras(Pretty(doc)) = Paras(doc)    and that the skeleton is kept.    *)
(* TailRule = "always" is the rule of the library before the repair (a tail *)
(* after every non-text element inside a paragraph): TLC refutes it.        *)
(***************************************************************************)
EXTENDS Naturals, Sequences, FiniteSets, TLC, Json

CONSTANTS Rich,        \* BOOLEAN: the larger family of documents
          TailRule,    \* "end-of-paragraph" (the code) or "always" (the old rule)
          Dump

NL(n) == <<100 + n>>
IsWs(c) == c = 0 \/ c >= 100
Node(k, text, tail, ch) == [k |-> k, text |-> text, tail |-> tail, ch |-> ch]
Textual(k) == k \in {"P", "T"}

RECURSIVE PrettyN(_, _, _, _, _, _)
PrettyN(e, level, ending, textualParent, paraParent, last) ==
    LET n == Len(e.ch)
        isText == Textual(e.k)
        tail1 == IF ~textualParent THEN NL(ending)
                 ELSE IF isText THEN e.tail
                 ELSE IF TailRule = "always" THEN (IF e.tail = <<>> THEN NL(ending) ELSE e.tail)
                 ELSE IF e.tail = <<>> /\ last /\ paraParent THEN NL(ending) ELSE e.tail
        text1 == IF isText \/ n = 0 THEN e.text
                 ELSE IF ~textualParent THEN NL(level + 1) ELSE e.text \o NL(level + 1)
        ch1 == [i \in 1..n |-> PrettyN(e.ch[i], level + 1, IF i = n THEN level ELSE level + 1, isText, e.k = "P", i = n)]
    IN Node(e.k, text1, tail1, ch1)
Pretty(doc) == PrettyN(doc, 0, 0, FALSE, FALSE, TRUE)

-----------------------------------------------------------------------------
(* what a consumer reads *)
RECURSIVE Cat(_)
Cat(ss) == IF ss = <<>> THEN <<>> ELSE Head(ss) \o Cat(Tail(ss))

RECURSIVE ParaChars(_)
ParaChars(e) ==      \* e is a P or a T: its character stream, objects as token 3, character elements as token 2
    e.text \o Cat([i \in 1..Len(e.ch) |->
        LET c == e.ch[i] IN (IF c.k = "T" THEN ParaChars(c) ELSE IF c.k = "C" THEN <<2>> ELSE <<3>>) \o c.tail])

RECURSIVE Squeeze(_, _)
Squeeze(s, prevWs) ==      \* runs of white space become one blank; leading white space is dropped
    IF s = <<>> THEN <<>>
    ELSE IF IsWs(Head(s)) THEN (IF prevWs THEN <<>> ELSE <<0>>) \o Squeeze(Tail(s), TRUE)
    ELSE <<Head(s)>> \o Squeeze(Tail(s), FALSE)
Collapse(s) == LET q == Squeeze(s, TRUE)
               IN IF q # <<>> /\ q[Len(q)] = 0 THEN SubSeq(q, 1, Len(q) - 1) ELSE q

RECURSIVE Paras(_)
RECURSIVE Nested(_)
Nested(e) ==        \* paragraphs held by the objects anchored in the text of e
    Cat([i \in 1..Len(e.ch) |-> LET c == e.ch[i] IN
            IF c.k = "T" THEN Nested(c) ELSE IF c.k = "O" THEN Paras(c) ELSE <<>>])
Paras(e) ==
    IF e.k = "P" THEN <<Collapse(ParaChars(e))>> \o Nested(e)
    ELSE Cat([i \in 1..Len(e.ch) |-> Paras(e.ch[i])])

RECURSIVE Skeleton(_)
Skeleton(e) == <<e.k, [i \in 1..Len(e.ch) |-> Skeleton(e.ch[i])]>>

-----------------------------------------------------------------------------
(* the bounded family of documents *)
Txt == {<<>>, <<1>>, <<0>>}
Pin == {Node("P", <<1>>, <<>>, <<>>), Node("P", <<0, 1>>, <<>>, <<Node("C", <<>>, <<>>, <<>>)>>)}
Cs == {Node("C", <<>>, t, <<>>) : t \in Txt}
TLeaf == {Node("T", x, t, ch) : x \in Txt, t \in Txt, ch \in {<<>>} \cup {<<c>> : c \in Cs}}
OKids == {<<>>} \cup {<<p>> : p \in Pin}
         \cup {<<Node("T", <<1>>, <<>>, <<>>), Node("B", <<>>, <<>>, <<p>>)>> : p \in Pin}
Os == {Node("O", <<>>, t, ch) : t \in Txt, ch \in OKids}
T2 == {Node("T", x, t, <<c>>) : x \in {<<>>, <<1>>}, t \in Txt,
          c \in {Node("T", <<1>>, <<>>, <<>>), Node("O", <<>>, <<>>, <<Node("P", <<1>>, <<>>, <<>>)>>)}}
Inline == Cs \cup TLeaf \cup Os \cup T2
SmallInline == Cs \cup {Node("T", <<1>>, t, <<>>) : t \in Txt} \cup {Node("O", <<>>, t, <<>>) : t \in Txt}
Kids == {<<>>} \cup {<<a>> : a \in Inline}
        \cup (IF Rich THEN {<<a, b>> : a \in Inline, b \in Inline} ELSE {<<a, b>> : a \in SmallInline, b \in Inline})
        \cup {<<a, b, c>> : a \in SmallInline, b \in Cs, c \in SmallInline}
Ps == {Node("P", x, t, ch) : x \in Txt, t \in {<<>>, <<0>>}, ch \in Kids}
SmallPs == {Node("P", x, <<>>, ch) : x \in {<<>>, <<1>>}, ch \in {<<>>} \cup {<<a>> : a \in SmallInline}}
Docs == {Node("B", <<>>, <<>>, <<p>>) : p \in Ps}
        \cup {Node("B", <<>>, <<>>, <<p, Node("B", <<>>, <<0>>, <<q>>)>>) : p \in SmallPs, q \in SmallPs}

VARIABLE doc
Init == doc \in Docs
Next == UNCHANGED doc
Spec == Init /\ [][Next]_doc

ReadableKept == Paras(Pretty(doc)) = Paras(doc)
SkeletonKept == Skeleton(Pretty(doc)) = Skeleton(doc)
(* printing what was already printed still reads the same *)
TwiceReadable == Paras(Pretty(Pretty(doc))) = Paras(doc)
EmitDoc == IF Dump THEN PrintT(ToJson([doc |-> doc, pretty |-> Pretty(doc), paras |-> Paras(doc)])) ELSE TRUE
=============================================================================
