----------------------------- MODULE GridTrace -----------------------------
(***************************************************************************)
(* Trace validation (binding B) for the table API.                         *)
(*                                                                         *)
(* The harness records histories of the REAL odfdo.Table / odfdo.Row: for   *)
(* every public call the operation record, and - taken after the call       *)
(* returned - the independent lxml expansion of the serialized XML (post),  *)
(* the structural defects of that XML (bad), the answers of the live        *)
(* object (live) and of a freshly parsed copy (fresh).                      *)
(*                                                                         *)
(* The specification's own state t advances by the Grid.tla operators;     *)
(* every event gets a TOTAL verdict (the set of failing clauses); after a   *)
(* failing event t re-synchronises on the observed state so that the rest   *)
(* of the trace is still validated.  One TLC run validates thousands of     *)
(* traces; the verdicts are printed as one JSON line at the end.            *)
(***************************************************************************)
EXTENDS Grid, Json, IOUtils, TLCExt

Traces == JsonDeserialize(IOEnv.TRACE_FILE)

VARIABLES tid, l, t, bad
vars == <<tid, l, t, bad>>

Has(r, f) == f \in DOMAIN r

(* operations specified by a relation instead of a function *)
Relational == {"optimize_width", "csv"}

Step(ev, cur) ==
    IF ev.kind = "row" THEN ApplyRow(cur, ev.op)
    ELSE IF ev.op.op \in Relational THEN cur ELSE Apply(cur, ev.op)

(* the reads logged for this event that disagree with the model's answers *)
ReadDiffs(tag, got, want) ==
    {<<tag, k>> : k \in {k \in DOMAIN got :
        LET w == CASE k = "traverse" -> SubSeq(want.rows, 1, Len(want.rows) - 1)
                   [] OTHER          -> want[k]
        IN got[k] # w}}

StepOK(ev, cur, next) ==
    CASE ev.op.op = "optimize_width" ->
            /\ OptimizeWidthOK(cur, ev.post)
            /\ (Has(ev.op, "again") => ev.post = cur)          \* idempotent
      [] ev.op.op = "csv" -> Has(ev, "values") /\ ev.values = CsvRows(cur) /\ ev.post = cur
      [] OTHER -> ev.post = next

Verdict(ev, next) ==
    (IF Has(ev, "exc") THEN {<<"exc", ev.exc>>} ELSE {})
    \cup (IF ~StepOK(ev, t, next) THEN {<<"xml", "post">>} ELSE {})
    \cup (IF Has(ev, "bad") /\ ev.bad # <<>> THEN {<<"struct", ev.bad[1]>>} ELSE {})
    \cup (IF ev.kind = "table" /\ ~WellFormed(ev.post) THEN {<<"struct", "row-wider-than-columns">>} ELSE {})
    \cup (IF ev.kind = "table" /\ Has(ev, "live") THEN ReadDiffs("live", ev.live, Reads(ev.post)) ELSE {})
    \cup (IF ev.kind = "table" /\ Has(ev, "fresh") THEN ReadDiffs("fresh", ev.fresh, Reads(ev.post)) ELSE {})
    \cup (IF ev.kind = "row" /\ Has(ev, "live") /\ ev.live # ev.post THEN {<<"live", "row">>} ELSE {})

Init ==
    /\ tid = 1
    /\ l = 1
    /\ t = Traces[1][1].pre
    /\ bad = {}

Consume ==
    /\ l <= Len(Traces[tid])
    /\ LET ev == Traces[tid][l]
           next == Step(ev, t)
           v == Verdict(ev, next)
       IN /\ bad' = bad \cup {[tid |-> tid, l |-> l, clause |-> c[1], what |-> c[2]] : c \in v}
          /\ t' = ev.post
    /\ l' = l + 1
    /\ UNCHANGED tid

NextTrace ==
    /\ l > Len(Traces[tid])
    /\ tid < Len(Traces)
    /\ tid' = tid + 1
    /\ l' = 1
    /\ t' = Traces[tid + 1][1].pre
    /\ UNCHANGED bad

Next == Consume \/ NextTrace
Spec == Init /\ [][Next]_vars

Done == tid = Len(Traces) /\ l > Len(Traces[tid])
Report == Done => PrintT(ToJson([verdicts |-> bad, traces |-> Len(Traces)]))
=============================================================================
