----------------------------- MODULE GridTrace -----------------------------
(***************************************************************************)
(* Trace validation (binding B) for the table API.                         *)
(*                                                                         *)
(* The harness records histories of the REAL odfdo.Table / odfdo.Row: for   *)
(* every public call the operation record, and - taken after the call       *)
(* returned - the independent lxml expansion of the serialized XML (post),  *)
(* the structural defects of that XML (bad), the answers of the live        *)
(* object (live) and of a freshly parsed copy (fresh).                      *)
(*                                                                         *)
(* The specification's own state t advances by the Grid.tla operators;     *)
(* every event gets a TOTAL verdict (the set of failing clauses); after a   *)
(* failing event t re-synchronises on the observed state so that the rest   *)
(* of the trace is still validated.  One TLC run validates thousands of     *)
(* traces; the verdicts are printed as one JSON line at the end.            *)
(***************************************************************************)
EXTENDS Grid, Json, IOUtils, TLCExt

Traces == JsonDeserialize(IOEnv.TRACE_FILE)

VARIABLES tid, l, t, u, bad
vars == <<tid, l, t, u, bad>>

Has(r, f) == f \in DOMAIN r

(* operations specified by a relation instead of a function *)
Relational == {"optimize_width", "csv", "untranslated"}

Step(ev, cur) ==
    IF ev.kind = "row" THEN ApplyRow(cur, ev.op)
    ELSE IF ev.op.op \in Relational THEN cur ELSE Apply(cur, ev.op)

(* the reads logged for this event that disagree with the model's answers *)
ReadDiffs(tag, got, want) ==
    {<<tag, k>> : k \in {k \in DOMAIN got :
        LET w == CASE k = "traverse" -> SubSeq(want.rows, 1, Len(want.rows) - 1)
                   [] OTHER          -> want[k]
        IN got[k] # w}}

StepOK(ev, cur, next) ==
    CASE ev.op.op = "optimize_width" ->
            /\ OptimizeWidthOK(cur, ev.post)
            /\ (Has(ev.op, "again") => ev.post = cur)          \* idempotent
      [] ev.op.op = "untranslated" -> TRUE      \* arguments not understood by the harvester: only the state invariants apply
      [] ev.op.op = "csv" -> Has(ev, "values") /\ ev.values = CsvRows(cur) /\ ev.post = cur
      [] OTHER -> ev.post = next

VerdictAt(ev, cur, next) ==
    (IF Has(ev, "exc") THEN {<<"exc", ev.exc>>} ELSE {})
    \cup (IF ~StepOK(ev, cur, next) THEN {<<"xml", "post">>} ELSE {})
    \cup (IF Has(ev, "bad") /\ ev.bad # <<>> THEN {<<"struct", ev.bad[1]>>} ELSE {})
    \cup (IF ev.kind = "table" /\ ~WellFormed(ev.post) THEN {<<"struct", "row-wider-than-columns">>} ELSE {})
    \cup (IF ev.kind = "table" /\ Has(ev, "live") THEN ReadDiffs("live", ev.live, Reads(ev.post)) ELSE {})
    \cup (IF ev.kind = "table" /\ Has(ev, "fresh") THEN ReadDiffs("fresh", ev.fresh, Reads(ev.post)) ELSE {})
    \cup (IF ev.kind = "row" /\ Has(ev, "live") /\ ev.live # ev.post THEN {<<"live", "row">>} ELSE {})

Init ==
    /\ tid = 1
    /\ l = 1
    /\ t = Traces[1][1].pre
    /\ u = <<>>          \* <<state>> of the clone (C10) once one was taken
    /\ bad = {}

(* C10: a "clone" event creates a second object whose model state starts   *)
(* equal; later events carry side = "b" when they act on the clone, and     *)
(* `other` = what the object NOT acted upon looks like afterwards           *)
Side(ev) == IF Has(ev, "side") THEN ev.side ELSE "a"
Cur(ev) == IF Side(ev) = "b" THEN u[1] ELSE t
Other(ev) == IF Side(ev) = "b" THEN t ELSE u[1]

TwinVerdict(ev) ==
    (IF ev.op.op = "clone" /\ ev.twin # t THEN {<<"clone", "differs-at-birth">>} ELSE {})
    \cup (IF ev.op.op = "clone" /\ ev.post # t THEN {<<"clone", "cloning-changed-original">>} ELSE {})
    \cup (IF ev.op.op # "clone" /\ Has(ev, "other") /\ u # <<>> /\ ev.other # Other(ev) THEN {<<"clone", "twin-changed">>} ELSE {})

Consume ==
    /\ l <= Len(Traces[tid])
    /\ LET ev == Traces[tid][l]
           cur == Cur(ev)
           next == IF ev.op.op = "clone" THEN cur ELSE Step(ev, cur)
           v == (IF ev.op.op = "clone" THEN {} ELSE VerdictAt(ev, cur, next)) \cup TwinVerdict(ev)
       IN /\ bad' = bad \cup {[tid |-> tid, l |-> l, clause |-> c[1], what |-> c[2]] : c \in v}
          /\ t' = IF ev.op.op = "clone" THEN t ELSE IF Side(ev) = "b" THEN t ELSE ev.post
          /\ u' = IF ev.op.op = "clone" THEN <<ev.twin>>
                  ELSE IF Side(ev) = "b" THEN <<ev.post>> ELSE u
    /\ l' = l + 1
    /\ UNCHANGED tid

NextTrace ==
    /\ l > Len(Traces[tid])
    /\ tid < Len(Traces)
    /\ tid' = tid + 1
    /\ l' = 1
    /\ t' = Traces[tid + 1][1].pre
    /\ u' = <<>>
    /\ UNCHANGED bad

Next == Consume \/ NextTrace
Spec == Init /\ [][Next]_vars

Done == tid = Len(Traces) /\ l > Len(Traces[tid])
Report == Done => PrintT(ToJson([verdicts |-> bad, traces |-> Len(Traces)]))
=============================================================================
