------------------------------ MODULE XPathLit ------------------------------
(***************************************************************************)
(* C14 - anything is found again under the name it was given.               *)
(* The library finds objects by pasting the identifier into an XPath         *)
(* predicate  [@attr=<literal>].  XPath 1.0 literals have NO escaping:       *)
(* "..." cannot hold a double quote, '...' cannot hold an apostrophe; a      *)
(* value with both needs concat("..", '"', "..").  Literal(name) is the      *)
(* expression the code builds; Eval is an XPath 1.0 reading of it (lexer of  *)
(* string literals + concat).  Property: for every name over an alphabet of  *)
(* significant characters, the expression is well formed and evaluates to    *)
(* exactly the name - so the predicate selects the objects with that name    *)
(* and only them.  Strings are sequences of code points.                     *)
(***************************************************************************)
EXTENDS Naturals, Sequences, TLC, Json

CONSTANTS Alphabet, MaxLen, Dump

DQ == 34
SQ == 39
Str(s) == s          \* readability

RECURSIVE Has(_, _)
Has(s, c) == s # <<>> /\ (Head(s) = c \/ Has(Tail(s), c))

RECURSIVE SplitOn(_, _, _)
SplitOn(s, c, cur) == IF s = <<>> THEN <<cur>>
                      ELSE IF Head(s) = c THEN <<cur>> \o SplitOn(Tail(s), c, <<>>)
                      ELSE SplitOn(Tail(s), c, Append(cur, Head(s)))

(* tokens of the expression: [q |-> quote char, s |-> chars] literals inside *)
(* an optional concat(...)                                                   *)
Literal(name) ==
    IF ~Has(name, DQ) THEN [concat |-> FALSE, args |-> <<[q |-> DQ, s |-> name]>>]
    ELSE IF ~Has(name, SQ) THEN [concat |-> FALSE, args |-> <<[q |-> SQ, s |-> name]>>]
    ELSE LET parts == SplitOn(name, DQ, <<>>)
             RECURSIVE Inter(_)
             Inter(ps) == IF Len(ps) = 1 THEN <<[q |-> DQ, s |-> ps[1]]>>
                          ELSE <<[q |-> DQ, s |-> ps[1]], [q |-> SQ, s |-> <<DQ>>]>> \o Inter(Tail(ps))
         IN [concat |-> TRUE, args |-> Inter(parts)]

(* an XPath 1.0 literal is well formed iff its text does not hold its own quote *)
WellFormed(e) == /\ \A i \in 1..Len(e.args) : ~Has(e.args[i].s, e.args[i].q)
                 /\ (e.concat => Len(e.args) >= 2)
                 /\ (~e.concat => Len(e.args) = 1)
RECURSIVE Cat(_)
Cat(args) == IF args = <<>> THEN <<>> ELSE Head(args).s \o Cat(Tail(args))
Eval(e) == Cat(e.args)

(* the expression as text, for the replay *)
RECURSIVE Join(_)
Join(args) == IF args = <<>> THEN <<>>
              ELSE <<Head(args).q>> \o Head(args).s \o <<Head(args).q>>
                   \o (IF Len(args) > 1 THEN <<44, 32>> ELSE <<>>) \o Join(Tail(args))
Text(e) == IF e.concat THEN <<99, 111, 110, 99, 97, 116, 40>> \o Join(e.args) \o <<41>> ELSE Join(e.args)

VARIABLE name
Names == UNION {[1..n -> Alphabet] : n \in 1..MaxLen}
Init == name \in Names
Next == UNCHANGED name
Spec == Init /\ [][Next]_name

LiteralWellFormed == WellFormed(Literal(name))
LiteralDenotesName == Eval(Literal(name)) = name
(* a different name never satisfies the predicate: equality of evaluations is equality of names *)
OnlyThatName == \A other \in {Tail(name), Append(name, 97)} : Eval(Literal(other)) # name
Emit == IF Dump THEN PrintT(ToJson([name |-> name, expr |-> Text(Literal(name))])) ELSE TRUE
=============================================================================
