------------------------------ MODULE StylesMC ------------------------------
(***************************************************************************)
(* Bounded exhaustive model for C13: sequences of insert_style (every       *)
(* dispatch branch, named / unnamed, automatic / default / common) and      *)
(* merge_styles_from on two documents; TLC checks RightContainer, Unique,   *)
(* FoundAgain, AutoNamesFresh, MergeIsUnionOtherWins, MergeLeavesOther and  *)
(* prints the transitions for replay on real documents (binding A).         *)
(***************************************************************************)
EXTENDS Styles, Json

CONSTANTS Names, MaxOps, Dump

Families == {"paragraph", "text", "master-page", "font-face", "page-layout"}
Empty == [c \in Containers |-> <<>>]

VARIABLES doc, other, op, ret, n
vars == <<doc, other, op, ret, n>>

Init == /\ doc = Empty
        /\ other \in {Empty,
                      [Empty EXCEPT !["s.styles"] = <<St("common", "paragraph", "A"), St("default", "paragraph", NONAME)>>,
                                    !["c.auto"] = <<St("auto", "text", "odfdo_auto_2")>>,
                                    !["s.master"] = <<St("master", "master-page", "B")>>]}
        /\ op = [op |-> "init"] /\ ret = "" /\ n = 0

Insert(d) ==
    \E f \in Families : \E nm \in Names \cup {NONAME} : \E a, df \in BOOLEAN :
        LET t == Target(IF d = "doc" THEN doc ELSE other, f, nm, a, df)
        IN /\ t.ok
           /\ Proceeds(t)
           /\ (f \notin StdFamilies => nm # NONAME)
           /\ IF d = "doc"
              THEN doc' = InsertStyle(doc, f, nm, a, df) /\ UNCHANGED other
              ELSE other' = InsertStyle(other, f, nm, a, df) /\ UNCHANGED doc
           /\ ret' = t.st.name
           /\ op' = [op |-> "insert", d |-> d, family |-> f, name |-> nm, automatic |-> a, default |-> df, container |-> t.c]
Merge ==
    /\ doc' = MergeFrom(doc, other)
    /\ UNCHANGED other
    /\ ret' = ""
    /\ op' = [op |-> "merge"]

Next == /\ n < MaxOps /\ n' = n + 1
        /\ (Insert("doc") \/ Insert("other") \/ Merge)
Spec == Init /\ [][Next]_vars
View == <<doc, other, n>>
Emit == IF Dump THEN PrintT(ToJson([pre |-> doc, pre_other |-> other, op |-> op', post |-> doc', post_other |-> other', ret |-> ret'])) ELSE TRUE

-----------------------------------------------------------------------------
InvUnique == Unique(doc) /\ Unique(other)

Cur(o, d, ot) == IF o.d = "doc" THEN d ELSE ot
(* the inserted style is the last of the container its family and kind require *)
RightContainer ==
    [][ op'.op = "insert" =>
          LET d2 == Cur(op', doc', other')
              want == CASE op'.family = "master-page" -> "s.master"
                        [] op'.family = "font-face" -> IF op'.default THEN "s.fonts" ELSE "c.fonts"
                        [] op'.family = "page-layout" -> "s.auto"
                        [] op'.automatic -> "c.auto"
                        [] OTHER -> "s.styles"
          IN /\ op'.container = want
             /\ d2[want] # <<>>
             /\ d2[want][Len(d2[want])].family = op'.family
             /\ d2[want][Len(d2[want])].name = ret'
      ]_vars
(* the returned name finds exactly the inserted style *)
FoundAgain ==
    [][ op'.op = "insert" =>
          LET d2 == Cur(op', doc', other')
              hit == Lookup(d2, op'.family, ret')
              d1 == Cur(op', doc, other)
              before == Lookup(d1, op'.family, ret')
          IN /\ hit[2] # 0
             /\ \/ (hit[1] = op'.container /\ hit[2] = Len(d2[hit[1]]))
                \* ... unless a style of that family and name ALREADY sat in a container looked up
                \* earlier (an automatic style of content.xml shadows a common style of the same
                \* name: names are expected to be unique per family across the document)
                \/ (before[2] # 0 /\ before[1] # op'.container /\ hit[1] = before[1])
      ]_vars
(* a generated automatic name never collides with an existing automatic name *)
AutoNamesFresh ==
    [][ (op'.op = "insert" /\ op'.automatic /\ op'.name = NONAME /\ op'.family \in StdFamilies) =>
          LET d1 == Cur(op', doc, other)
          IN \A c \in {"c.auto", "s.auto"} : \A i \in 1..Len(d1[c]) :
                d1[c][i].family = op'.family => d1[c][i].name # ret' ]_vars
(* merging: every style of other is in doc afterwards (other wins), every   *)
(* style of doc not redefined by other is still there, other is unchanged   *)
MergeIsUnionOtherWins ==
    [][ op'.op = "merge" =>
          /\ \A c \in Containers : \A i \in 1..Len(other[c]) : \E j \in 1..Len(doc'[c]) : doc'[c][j] = other[c][i]
          /\ \A c \in Containers : \A i \in 1..Len(doc[c]) :
                (\E j \in 1..Len(doc'[c]) : doc'[c][j] = doc[c][i])
                \/ (\E c2 \in Containers : \E k \in 1..Len(other[c2]) :
                        PartOf(c2) = PartOf(c) /\ Key(other[c2][k]) = Key(doc[c][i]))
          /\ other' = other ]_vars
=============================================================================
