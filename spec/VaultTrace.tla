----------------------------- MODULE VaultTrace -----------------------------
(***************************************************************************)
(* Trace validation of the implementation-shaped Vault.tla: every call of   *)
(* set_item_in_vault / insert_item_in_vault / delete_item_in_vault made by   *)
(* the real code (random table histories, and the repository's own tests     *)
(* run under the external tracing plugin) is recorded from outside:          *)
(*    the vault (cells of a row, rows or columns of a table), the position,   *)
(*    the code and repeat of the item given, the run layout of the XML        *)
(*    before and after (independent lxml walk), the position map afterwards.  *)
(* Verdict  (C01): the expansion after the call is SeqSet / SeqIns / SeqDel   *)
(*                 of the expansion before - the call changed exactly the     *)
(*                 positions it addresses.                                    *)
(* Diagnostics   : the run layout is the one Vault.tla's transcription gives, *)
(*                 the map is MapOf(runs).  (Implementation detail: counted,   *)
(*                 never raised.)                                             *)
(***************************************************************************)
EXTENDS Vault, IOUtils, TLCExt

Records == JsonDeserialize(IOEnv.TRACE_FILE)
Has(r, f) == f \in DOMAIN r
Runs(xs) == [i \in 1..Len(xs) |-> Run(xs[i][1], xs[i][2])]

InRange(r) == r.pos >= 0 /\ r.pos < Len(Expand(Runs(r.pre)))

Verdict(r) ==
    LET pre == Runs(r.pre)  post == Runs(r.post)
        old == Expand(pre)  new == Expand(post)
        want == CASE r.fn = "set" -> SeqSet(old, r.pos, r.v, r.n, E)
                  [] r.fn = "insert" -> SeqIns(old, r.pos, r.v, r.n, E)
                  [] OTHER -> SeqDel(old, r.pos)
    IN IF Has(r, "exc") THEN (IF new # old THEN {"partial-modification"} ELSE {})
       ELSE IF ~InRange(r) THEN {"call-outside-the-stored-sequence"}     \* the caller's map no longer describes the XML
       ELSE IF new # want THEN {"expansion"} ELSE {}

Diag(r) ==
    LET pre == Runs(r.pre)  post == Runs(r.post)
        want == CASE r.fn = "set" -> SetItem(pre, r.pos, r.v, r.n)
                  [] r.fn = "insert" -> InsertItem(pre, r.pos, r.v, r.n)
                  [] OTHER -> DeleteItem(pre, r.pos)
    IN IF Has(r, "exc") \/ ~InRange(r) THEN {}
       ELSE (IF post # want THEN {"layout"} ELSE {}) \cup (IF r.map # MapOf(post, -1) THEN {"map"} ELSE {})

VARIABLES l, bad, dl, dm
tvars == <<l, bad, dl, dm>>
TInit == l = 1 /\ bad = {} /\ dl = 0 /\ dm = 0 /\ Init     \* (the variables of Vault.tla are not used)
TNext == /\ l <= Len(Records)
         /\ bad' = bad \cup {[l |-> l, clause |-> c] : c \in Verdict(Records[l])}
         /\ dl' = dl + (IF "layout" \in Diag(Records[l]) THEN 1 ELSE 0)
         /\ dm' = dm + (IF "map" \in Diag(Records[l]) THEN 1 ELSE 0)
         /\ l' = l + 1
         /\ UNCHANGED vars
TSpec == TInit /\ [][TNext]_<<tvars, vars>>
Done == l > Len(Records)
Report == Done => PrintT(ToJson([verdicts |-> bad, records |-> Len(Records), layout_differs |-> dl, map_differs |-> dm]))
=============================================================================
