------------------------------ MODULE Registry ------------------------------
(***************************************************************************)
(* C12 - every element class round-trips through XML and comes back as the  *)
(* same class.                                                              *)
(*                                                                         *)
(* The registry (tag -> class, first registration wins), the tag every      *)
(* class declares as its own, and the generic attribute properties of every *)
(* class are EXTRACTED FROM THE WORKING TREE at run time into the generated  *)
(* module RegistryData.tla (so a class added or re-tagged later is covered   *)
(* without touching this file).  TLC checks the structural properties on     *)
(* that data and the generic property codec (PropSet / PropGet) on a small   *)
(* value domain.                                                             *)
(***************************************************************************)
EXTENDS Naturals, Sequences, FiniteSets, TLC, Json

CONSTANTS Registered,   \* sequence of <<tag, class>> in registration order (every register call)
          OwnTag,       \* set of <<class, its _tag>> for every registered class
          Props         \* set of <<class, property name, attribute>>

Tags == {Registered[i][1] : i \in 1..Len(Registered)}
(* first registration wins *)
Dispatch(tag) == LET idx == {i \in 1..Len(Registered) : Registered[i][1] = tag}
                 IN Registered[CHOOSE i \in idx : \A j \in idx : i <= j][2]

(* every class gets itself back for the tag it declares as its own *)
OwnTagDispatchesHome == \A ct \in OwnTag : ct[2] \in Tags /\ Dispatch(ct[2]) = ct[1]
(* no tag is claimed by two classes (a later registration would be silently ignored) *)
NoTagTwice == \A i, j \in 1..Len(Registered) : Registered[i][1] = Registered[j][1] => Registered[i][2] = Registered[j][2]
(* a class does not declare two properties on the same attribute under different names, nor one name twice *)
PropsWellFormed == \A p, q \in Props : (p[1] = q[1] /\ p[2] = q[2]) => p[3] = q[3]

(* generic attribute property codec: bool <-> "true"/"false", None deletes, anything else str *)
NONE == "<none>"
PropSet(v) == CASE v = NONE -> NONE        \* attribute removed
                [] v = "<True>" -> "true"
                [] v = "<False>" -> "false"
                [] OTHER -> v
PropGet(s) == CASE s = NONE -> NONE
                [] s = "true" -> "<True>"
                [] s = "false" -> "<False>"
                [] OTHER -> s
(* what a stored value reads back as: the strings "true"/"false" come back as booleans *)
Norm(v) == CASE v = "true" -> "<True>" [] v = "false" -> "<False>" [] OTHER -> v
Values == {NONE, "<True>", "<False>", "true", "false", "x", "two words", "True", ""}
PropRoundTrip == \A v \in Values : PropGet(PropSet(v)) = Norm(v)

(* the same properties as sets of witnesses, printed so that every witness is reported on its own *)
TagClashes == {<<Registered[j][1], Dispatch(Registered[j][1]), Registered[j][2]>> :
                 j \in {k \in 1..Len(Registered) : Dispatch(Registered[k][1]) # Registered[k][2]}}
NotHome == {ct \in OwnTag : ct[2] \notin Tags \/ Dispatch(ct[2]) # ct[1]}
BadProps == {p \in Props : \E q \in Props : p[1] = q[1] /\ p[2] = q[2] /\ p[3] # q[3]}
Report == PrintT(ToJson([clashes |-> TagClashes, nothome |-> NotHome, badprops |-> BadProps,
                         codec |-> PropRoundTrip, tags |-> Cardinality(Tags), classes |-> Cardinality({ct[1] : ct \in OwnTag})]))

VARIABLE dummy
Init == dummy = 0
Next == UNCHANGED dummy
Spec == Init /\ [][Next]_dummy
=============================================================================
