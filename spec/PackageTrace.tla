---------------------------- MODULE PackageTrace ----------------------------
(***************************************************************************)
(* Abstract specification of an ODF document as a PACKAGE, and validation  *)
(* of histories recorded from the real odfdo.Document (binding B) for      *)
(* C03 (save/reopen loses nothing), C04 (valid package, manifest matches),  *)
(* C10 (clone), C11 (saving is neutral), C15 (reads change nothing).        *)
(*                                                                         *)
(* What the caller believes the document is:                                *)
(*    doc : part name -> [s, l]   content identifiers of each part          *)
(*          s = strict identity (canonical XML / bytes),                    *)
(*          l = loose identity (structure, attributes, readable text:       *)
(*              what pretty printing must preserve)                         *)
(*    mf  : sequence of file paths the manifest lists                       *)
(*    disk: what each save wrote (target -> [parts, mf])                    *)
(*    twin: the state the not-followed side of the last clone must keep     *)
(* Last write wins, whether it came through the DOM or through set_part.    *)
(* Identifiers are small integers assigned by the harness from digests of   *)
(* INDEPENDENT readings (zipfile / folder walk + lxml C14N); 0 never occurs.*)
(* Every event gets a total verdict (set of failing clauses); the state     *)
(* re-synchronises on the model, not on the observation.                    *)
(***************************************************************************)
EXTENDS Naturals, Sequences, FiniteSets, TLC, Json, IOUtils, TLCExt

Traces == JsonDeserialize(IOEnv.TRACE_FILE)

VARIABLES tid, l, doc, mf, disk, twin, bad
vars == <<tid, l, doc, mf, disk, twin, bad>>

Has(r, f) == f \in DOMAIN r
Range(s) == {s[i] : i \in 1..Len(s)}
NoDup(s) == Cardinality(Range(s)) = Len(s)
IsDir(n) == FALSE   \* directory entries are removed by the harness (exempt both ways)

Put(d, p, v) == [n \in (DOMAIN d) \cup {p} |-> IF n = p THEN v ELSE d[n]]
Del(d, p) == [n \in (DOMAIN d) \ {p} |-> d[n]]
RECURSIVE SeqWithout(_, _)
SeqWithout(s, p) == IF s = <<>> THEN <<>>
                    ELSE (IF Head(s) = p THEN <<>> ELSE <<Head(s)>>) \o SeqWithout(Tail(s), p)
AddOnce(s, p) == IF p \in Range(s) THEN s ELSE Append(s, p)

(* does an observed view agree with the model on the parts it looked at?   *)
(* a part observed as absent is reported with s = 0                         *)
ViewOK(view, d) ==
    \A p \in DOMAIN view :
        IF p \in DOMAIN d THEN view[p].s = d[p].s ELSE view[p].s = 0
ViewDiff(view, d) ==
    {p \in DOMAIN view : ~(IF p \in DOMAIN d THEN view[p].s = d[p].s ELSE view[p].s = 0)}

(* the model's next state *)
NextDoc(ev) ==
    CASE Has(ev, "exc")     -> doc          \* a failed call must leave the document as it was
      [] ev.op = "open"     -> ev.mem
      [] ev.op = "edit"     -> Put(doc, ev.part, ev.new)
      [] ev.op = "set_part" -> Put(doc, ev.part, ev.new)
      [] ev.op = "del_part" -> Del(doc, ev.part)
      [] ev.op = "add_file" -> Put(doc, ev.part, ev.new)
      [] ev.op = "merge_pic" -> Put(doc, ev.part, ev.new)     \* a picture part copied by merge_styles_from
      [] ev.op = "reopen"   -> disk[ev.target].parts
      [] OTHER -> doc
NextMf(ev) ==
    CASE Has(ev, "exc")     -> mf
      [] ev.op = "open"     -> ev.mf
      [] ev.op = "del_part" -> SeqWithout(mf, ev.part)
      [] ev.op = "add_file" -> AddOnce(AddOnce(mf, "Pictures/"), ev.part)
      [] ev.op = "merge_pic" -> AddOnce(mf, ev.part)
      [] ev.op = "reopen"   -> disk[ev.target].mf
      [] OTHER -> mf

SaveClauses(ev) ==
    LET loose == ev.pretty \/ ev.packaging # "zip"
        names == (DOMAIN ev.saved)
        flat == ev.packaging = "xml"     \* flat XML cannot be re-opened: flat_ok only
    IN  (IF ~flat /\ names # DOMAIN doc THEN {"C03:part-lost-or-invented"} ELSE {})
   \cup (IF ~flat /\ \E p \in names \cap DOMAIN doc :
               IF loose THEN ev.saved[p].l # doc[p].l ELSE ev.saved[p].s # doc[p].s
         THEN {IF loose THEN "C11:pretty-or-packaging-changed-content" ELSE "C03:saved-content-differs"} ELSE {})
   \cup (IF ev.packaging = "zip" /\ ~ev.zip.mimetype_first THEN {"C04:mimetype-not-first"} ELSE {})
   \cup (IF ev.packaging = "zip" /\ ~ev.zip.mimetype_stored THEN {"C04:mimetype-compressed"} ELSE {})
   \cup (IF ev.packaging = "zip" /\ ~ev.zip.mimetype_ok THEN {"C04:mimetype-content"} ELSE {})
   \cup (IF ev.packaging = "zip" /\ ev.zip.dups # <<>> THEN {"C04:duplicate-zip-entry"} ELSE {})
   \cup (IF ev.packaging # "xml" /\ ~NoDup(ev.smf) THEN {"C04:duplicate-manifest-entry"} ELSE {})
   \cup (IF ev.packaging # "xml" /\ Range(ev.smf_files) # (names \ {"mimetype"}) THEN {"C04:manifest-differs-from-package"} ELSE {})
   \cup (IF ev.packaging # "xml" /\ ~ev.root_media_ok THEN {"C04:root-media-type"} ELSE {})
   \cup (IF Has(ev, "flat_ok") /\ ~ev.flat_ok THEN {"C03:flat-xml"} ELSE {})
   \cup (IF Has(ev, "after") /\ ~ViewOK(ev.after, doc) THEN {"C11:save-edited-memory"} ELSE {})

Clauses(ev) ==
    LET nd == NextDoc(ev)
    IN  (IF Has(ev, "exc") THEN {"exc:" \o ev.exc} ELSE {})
   \cup (IF Has(ev, "view") /\ ~ViewOK(ev.view, nd) THEN
            {CASE ev.op = "open" -> "C03:opened-differs-from-source"
               [] ev.op = "reopen" -> "C03:reopened-differs-from-saved"
               [] ev.op = "clone" -> "C10:clone-differs-at-birth"
               [] ev.op = "read" -> "C15:read-changed-document"
               [] OTHER -> "C03:memory-view-differs"} ELSE {})
   \cup (IF ev.op = "save" /\ ~Has(ev, "exc") THEN SaveClauses(ev) ELSE {})
   \cup (IF ev.op = "read" /\ Has(ev, "same") /\ ~ev.same THEN {"C15:second-answer-differs"} ELSE {})
   \* a read-only entry point (C15): every part of the document, the manifest included, has the
   \* same identifier before and after the call, and the call answers the same when repeated
   \cup (IF ev.op = "pure" /\ ev.before # ev.after THEN {"C15:read-changed-document"} ELSE {})
   \cup (IF ev.op = "pure" /\ ~ev.same THEN {"C15:second-answer-differs"} ELSE {})
   \cup (IF Has(ev, "twin_view") /\ twin # <<>> /\ ~ViewOK(ev.twin_view, twin[1]) THEN {"C10:twin-changed"} ELSE {})
   \cup (IF ev.op = "save_twin" /\ ~Has(ev, "exc") /\ twin # <<>> THEN
            (IF DOMAIN ev.saved # DOMAIN twin[1] \/ \E p \in DOMAIN ev.saved \cap DOMAIN twin[1] : ev.saved[p].s # twin[1][p].s
             THEN {"C10:twin-saved-differs"} ELSE {})
            \cup (IF Range(ev.smf_files) # (DOMAIN ev.saved \ {"mimetype"}) THEN {"C04:manifest-differs-from-package"} ELSE {})
            \cup (IF ~NoDup(ev.smf) THEN {"C04:duplicate-manifest-entry"} ELSE {})
         ELSE {})
   \cup (IF ev.op = "clone" /\ Has(ev, "mf_view") /\ Range(ev.mf_view) # Range(mf) THEN {"C10:clone-manifest-differs"} ELSE {})
   \cup (IF ev.op = "reopen" /\ Has(ev, "mf_view") /\ ev.mf_view # disk[ev.target].mf THEN {"C04:reopened-manifest"} ELSE {})

Init ==
    /\ tid = 1 /\ l = 1
    /\ doc = <<>> /\ mf = <<>> /\ disk = <<>> /\ twin = <<>> /\ bad = {}

Consume ==
    /\ l <= Len(Traces[tid])
    /\ LET ev == Traces[tid][l]
       IN /\ bad' = bad \cup {[tid |-> tid, l |-> l, clause |-> c] : c \in Clauses(ev)}
          /\ doc' = NextDoc(ev)
          /\ mf' = NextMf(ev)
          /\ disk' = IF ev.op = "save" /\ ~Has(ev, "exc")
                     THEN Put(disk, ev.target, [parts |-> ev.saved, mf |-> ev.smf])
                     ELSE disk
          /\ twin' = IF ev.op = "clone" THEN <<doc>> ELSE twin
    /\ l' = l + 1
    /\ UNCHANGED tid

NextTrace ==
    /\ l > Len(Traces[tid])
    /\ tid < Len(Traces)
    /\ tid' = tid + 1
    /\ l' = 1
    /\ doc' = <<>> /\ mf' = <<>> /\ disk' = <<>> /\ twin' = <<>>
    /\ UNCHANGED bad

Next == Consume \/ NextTrace
Spec == Init /\ [][Next]_vars

Done == tid = Len(Traces) /\ l > Len(Traces[tid])
Report == Done => PrintT(ToJson([verdicts |-> bad, traces |-> Len(Traces)]))
=============================================================================
