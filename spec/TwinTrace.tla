----------------------------- MODULE TwinTrace -----------------------------
(***************************************************************************)
(* C10 for objects without a richer model (elements, cells, rows, columns,  *)
(* XML parts, containers): a clone is a VALUE.  Abstractly an object is its *)
(* serialisation identifier; Clone copies it, Mutate(o) gives object o a    *)
(* fresh identifier and leaves the other alone.  The recorded events carry  *)
(* the identifiers the harness observed (digests of serialisations mapped   *)
(* to small integers); TLC replays the two-object model and gives each      *)
(* event a verdict.                                                         *)
(***************************************************************************)
EXTENDS Naturals, Sequences, TLC, Json, IOUtils, TLCExt

Traces == JsonDeserialize(IOEnv.TRACE_FILE)
VARIABLES tid, l, a, b, bad
vars == <<tid, l, a, b, bad>>

Clauses(ev) ==
    CASE ev.op = "clone" ->
            (IF ev.a # a THEN {"cloning-changed-original"} ELSE {})
       \cup (IF ev.b # a THEN {"differs-at-birth"} ELSE {})
      [] ev.op = "mutate_a" ->
            (IF ev.a = a THEN {"vacuous-mutation"} ELSE {})
       \cup (IF ev.b # b THEN {"twin-changed"} ELSE {})
      [] ev.op = "mutate_b" ->
            (IF ev.b = b THEN {"vacuous-mutation"} ELSE {})
       \cup (IF ev.a # a THEN {"twin-changed"} ELSE {})
      [] OTHER -> {}

Init == tid = 1 /\ l = 1 /\ a = Traces[1][1].a /\ b = 0 /\ bad = {}
Consume ==
    /\ l <= Len(Traces[tid])
    /\ LET ev == Traces[tid][l]
       IN /\ bad' = bad \cup {[tid |-> tid, l |-> l, clause |-> c] : c \in Clauses(ev)}
          /\ a' = IF ev.op = "clone" THEN a ELSE IF ev.op = "mutate_a" THEN ev.a ELSE a
          /\ b' = IF ev.op = "clone" THEN a ELSE IF ev.op = "mutate_b" THEN ev.b ELSE b
    /\ l' = l + 1 /\ UNCHANGED tid
NextTrace ==
    /\ l > Len(Traces[tid]) /\ tid < Len(Traces)
    /\ tid' = tid + 1 /\ l' = 1 /\ a' = Traces[tid + 1][1].a /\ b' = 0 /\ UNCHANGED bad
Next == Consume \/ NextTrace
Spec == Init /\ [][Next]_vars
Done == tid = Len(Traces) /\ l > Len(Traces[tid])
Report == Done => PrintT(ToJson([verdicts |-> bad, traces |-> Len(Traces)]))
=============================================================================
