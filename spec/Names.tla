------------------------------- MODULE Names -------------------------------
(***************************************************************************)
(* C07 (names): which table names and named-range names the API accepts.   *)
(* The documented rules are written declaratively; the checks performed by  *)
(* the code (a regular-expression search, a small state machine) are        *)
(* transcribed next to them and TLC shows both agree on every string over   *)
(* an alphabet that contains each forbidden character; every string with    *)
(* its verdict is printed and replayed into Table(name), Table.name = and   *)
(* NamedRange(name) (binding A).                                            *)
(* A string is a sequence of code points (integers).                       *)
(***************************************************************************)
EXTENDS Naturals, Sequences, TLC, Json

CONSTANTS Alphabet, MaxLen, Dump

APOS == 39
Letters == {97, 66}             \* a B
Digits  == {49, 48}             \* 1 0
Spaces  == {32, 10, 9}          \* space LF TAB
NonAscii == {233}               \* e-acute
TableForbidden == {91, 93, 42, 63, 58, 47, 92, 10}   \* [ ] * ? : / \ LF

Strings == UNION {[1..n -> Alphabet] : n \in 0..MaxLen}

RECURSIVE LStrip(_), RStrip(_)
LStrip(s) == IF s # <<>> /\ Head(s) \in Spaces THEN LStrip(Tail(s)) ELSE s
RStrip(s) == IF s # <<>> /\ s[Len(s)] \in Spaces THEN RStrip(SubSeq(s, 1, Len(s) - 1)) ELSE s
Strip(s) == RStrip(LStrip(s))

(* documented: non-empty, none of []*?:/\ (nor a line break), no apostrophe *)
(* as first or last character                                               *)
TableNameOK(s) ==
    LET t == Strip(s)
    IN /\ t # <<>>
       /\ \A i \in 1..Len(t) : t[i] \notin TableForbidden
       /\ t[1] # APOS
       /\ t[Len(t)] # APOS

(* as coded: re.search(r"^\'|[\n\\/\*\?:\][]|\'$", name.strip()) finds nothing *)
TableNameAsCoded(s) ==
    LET t == Strip(s)
        found == \/ (t # <<>> /\ t[1] = APOS)
                 \/ \E i \in 1..Len(t) : t[i] \in TableForbidden
                 \/ (t # <<>> /\ t[Len(t)] = APOS)
    IN t # <<>> /\ ~found

(* documented: only letters, digits and "_"; not of the form of a cell      *)
(* coordinate such as AB12                                                  *)
NameChar(c) == c \in Letters \cup Digits \cup NonAscii \cup {95}
CoordLike(t) ==
    \E k \in 1..(Len(t) - 1) :
        /\ \A i \in 1..k : t[i] \in Letters
        /\ \A i \in (k + 1)..Len(t) : t[i] \in Digits
RangeNameOK(s) ==
    LET t == Strip(s)
    IN t # <<>> /\ (\A i \in 1..Len(t) : NameChar(t[i])) /\ ~CoordLike(t)

(* as coded: the scan with the variable `step` in NamedRange.name *)
RECURSIVE Scan(_, _)
Scan(t, step) ==
    IF t = <<>> THEN step
    ELSE IF Head(t) \in Letters /\ step \in {"", "A"} THEN Scan(Tail(t), "A")
    ELSE IF step \in {"A", "A1"} /\ Head(t) \in Digits THEN Scan(Tail(t), "A1")
    ELSE ""
RangeNameAsCoded(s) ==
    LET t == Strip(s)
    IN t # <<>> /\ (\A i \in 1..Len(t) : NameChar(t[i])) /\ Scan(t, "") # "A1"

VARIABLE s
Init == s \in Strings
Next == UNCHANGED s
Spec == Init /\ [][Next]_s

TableRuleAgrees == TableNameOK(s) = TableNameAsCoded(s)
RangeRuleAgrees == RangeNameOK(s) = RangeNameAsCoded(s)
Emit == IF Dump
        THEN PrintT(ToJson([s |-> s, stripped |-> Strip(s),
                            tableok |-> TableNameOK(s), rangeok |-> RangeNameOK(s)]))
        ELSE TRUE
=============================================================================
