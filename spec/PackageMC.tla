----------------------------- MODULE PackageMC -----------------------------
(***************************************************************************)
(* Implementation-shaped model of odfdo's Document/Container: the design    *)
(* the code implements for keeping a package in memory, one action per      *)
(* critical routine, with the state the code really keeps:                  *)
(*                                                                         *)
(*   file   : what the backing zip/folder holds (lazily read)               *)
(*   parts  : Container.__parts   part -> content | UNREAD | DELETED        *)
(*   xml    : Document.__xmlparts parsed XML part -> NONE | current tree    *)
(*   mbytes / mparsed : the manifest as bytes in the container / as parsed  *)
(*            part (sets of listed files)                                   *)
(* next to the ABSTRACT belief of the caller (same meaning as in           *)
(* PackageTrace.tla): doc, mf.  TLC checks, for every history up to the     *)
(* bounds, that what Save writes is exactly the belief (C03), that the      *)
(* manifest written lists exactly the files written (C04), that Save does   *)
(* not change the belief-visible memory (C11) and that a clone starts equal *)
(* and stays independent (C10).  Contents are integers; every write draws a *)
(* fresh one.                                                               *)
(***************************************************************************)
EXTENDS Naturals, FiniteSets, TLC

CONSTANTS XmlParts, BinParts, NewBins, MaxK, Lazy

UNREAD == 0
DELETED == 999
NONE == 0
Parts == XmlParts \cup BinParts \cup NewBins

VARIABLES file, parts, xml, mbytes, mparsed, doc, mf, k, out, cl
vars == <<file, parts, xml, mbytes, mparsed, doc, mf, k, out, cl>>

Initial(p) == IF p \in NewBins THEN DELETED ELSE 1   \* every original part has content 1
Present(d) == {p \in Parts : d[p] # DELETED}

Init ==
    /\ file = [p \in Parts |-> Initial(p)]
    /\ parts = [p \in Parts |-> IF p \in NewBins THEN DELETED ELSE IF Lazy THEN UNREAD ELSE 1]
    /\ xml = [p \in XmlParts |-> NONE]
    /\ mbytes = XmlParts \cup BinParts
    /\ mparsed = {"unparsed"}
    /\ doc = [p \in Parts |-> Initial(p)]
    /\ mf = XmlParts \cup BinParts
    /\ k = 2
    /\ out = [parts |-> <<>>, mf |-> {}, valid |-> FALSE]
    /\ cl = [valid |-> FALSE]

(* Container.get_part: bytes of a part, read from the file on first use *)
Bytes(p) == IF parts[p] = UNREAD THEN file[p] ELSE parts[p]
Loaded(p) == [parts EXCEPT ![p] = Bytes(p)]

Manifest == IF mparsed = {"unparsed"} THEN mbytes ELSE mparsed

(* Document.get_part(xml part) then an edit through the DOM *)
Touch(p) ==
    /\ k <= MaxK
    /\ parts[p] # DELETED
    /\ parts' = Loaded(p)
    /\ xml' = [xml EXCEPT ![p] = k]
    /\ doc' = [doc EXCEPT ![p] = k]
    /\ k' = k + 1
    /\ UNCHANGED <<file, mbytes, mparsed, mf, out, cl>>

(* reading a part parses it (fills the cache) without changing it *)
Peek(p) ==
    /\ xml[p] = NONE
    /\ parts' = Loaded(p)
    /\ xml' = [xml EXCEPT ![p] = Bytes(p)]
    /\ UNCHANGED <<file, mbytes, mparsed, doc, mf, k, out, cl>>

(* Document.set_part: the parsed version of an XML part is forgotten *)
SetPart(p) ==
    /\ k <= MaxK
    /\ doc[p] # DELETED
    /\ parts' = [parts EXCEPT ![p] = k]
    /\ xml' = IF p \in XmlParts THEN [xml EXCEPT ![p] = NONE] ELSE xml
    /\ doc' = [doc EXCEPT ![p] = k]
    /\ k' = k + 1
    /\ UNCHANGED <<file, mbytes, mparsed, mf, out, cl>>

(* Document.del_part: container mark + manifest entry removed *)
DelPart(p) ==
    /\ p \in BinParts \cup NewBins
    /\ doc[p] # DELETED
    /\ parts' = [parts EXCEPT ![p] = DELETED]
    /\ mparsed' = Manifest \ {p}
    /\ doc' = [doc EXCEPT ![p] = DELETED]
    /\ mf' = mf \ {p}
    /\ UNCHANGED <<file, xml, mbytes, k, out, cl>>

(* Document.add_file: blob named by its hash -> same content, same name *)
AddFile(p) ==
    /\ p \in NewBins
    /\ k <= MaxK
    /\ LET c == IF doc[p] # DELETED THEN doc[p] ELSE k   \* same blob again: same content
       IN /\ parts' = [parts EXCEPT ![p] = c]
          /\ doc' = [doc EXCEPT ![p] = c]
    /\ mparsed' = Manifest \cup {p}
    /\ mf' = mf \cup {p}
    /\ k' = k + 1
    /\ UNCHANGED <<file, xml, mbytes, out, cl>>

(* Document.save + Container.save: serialise every parsed part into the    *)
(* container, load the parts never read, write what is not deleted          *)
Save ==
    LET p1 == [p \in Parts |-> IF p \in XmlParts /\ xml[p] # NONE THEN xml[p]
                                ELSE IF parts[p] = UNREAD THEN file[p] ELSE parts[p]]
    IN /\ parts' = p1
       /\ mbytes' = Manifest
       /\ out' = [parts |-> [p \in Present(p1) |-> p1[p]], mf |-> Manifest, valid |-> TRUE]
       /\ UNCHANGED <<file, xml, mparsed, doc, mf, k, cl>>

(* Document.clone: container copy (unread parts loaded first, in the        *)
(* original too) + current state of the parsed parts                        *)
Clone ==
    LET p1 == [p \in Parts |-> IF parts[p] = UNREAD THEN file[p] ELSE parts[p]]
    IN /\ parts' = p1
       /\ cl' = [valid |-> TRUE,
                 parts |-> [p \in Parts |-> IF p \in XmlParts /\ xml[p] # NONE THEN xml[p] ELSE p1[p]],
                 mf |-> Manifest,
                 doc |-> doc, mfdoc |-> mf]
       /\ UNCHANGED <<file, xml, mbytes, mparsed, doc, mf, k, out>>

Next ==
    \/ \E p \in XmlParts : Touch(p) \/ Peek(p)
    \/ \E p \in Parts : SetPart(p) \/ DelPart(p) \/ AddFile(p)
    \/ Save
    \/ Clone

Spec == Init /\ [][Next]_vars

-----------------------------------------------------------------------------
(* what the live document would answer for a part (Document.get_part) *)
View(p) == IF p \in XmlParts /\ xml[p] # NONE THEN xml[p] ELSE Bytes(p)

(* the in-memory document IS the caller's belief, at every moment *)
MemoryIsBelief == \A p \in Parts : View(p) = doc[p]
ManifestIsBelief == Manifest = mf

(* C03: what the last Save wrote is exactly the belief at that moment; as   *)
(* Save does not change the belief, it is checked as an action property     *)
SaveFaithful ==
    [][ out' # out =>
          /\ DOMAIN out'.parts = Present(doc)
          /\ \A p \in DOMAIN out'.parts : out'.parts[p] = doc[p] ]_vars

(* C04: manifest written = files written (mimetype and the manifest itself *)
(* are outside this model)                                                  *)
ManifestCoherent == out.valid => out.mf = DOMAIN out.parts

(* C11: Save leaves every answer of the live document unchanged *)
SaveNeutral ==
    [][ out' # out => \A p \in Parts : (IF p \in XmlParts /\ xml'[p] # NONE THEN xml'[p]
                                        ELSE IF parts'[p] = UNREAD THEN file'[p] ELSE parts'[p]) = View(p) ]_vars

(* C10: equal at birth (action property) and independent for life: the     *)
(* clone is a value, nothing the original does later reaches it            *)
CloneEqualAtBirth ==
    [][ cl' # cl => /\ \A p \in Parts : cl'.parts[p] = doc[p]
                    /\ cl'.mf = mf
                    /\ \A p \in Parts : (IF p \in XmlParts /\ xml'[p] # NONE THEN xml'[p]
                                         ELSE IF parts'[p] = UNREAD THEN file'[p] ELSE parts'[p]) = View(p) ]_vars
=============================================================================
