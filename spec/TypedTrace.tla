----------------------------- MODULE TypedTrace -----------------------------
(***************************************************************************)
(* Trace validation for C06: one record per (carrier, value) stored in the  *)
(* real library.  Recorded: the kind of the Python value, the value type     *)
(* and the value attribute written (name + text as code points), the kind    *)
(* of the value read back and whether it is equal to the original (directly, *)
(* after re-parsing the element, after save + reopen; equality is computed   *)
(* by the harness with exact arithmetic).  TLC checks the documented         *)
(* correspondence of Typed.tla and that the attribute text is in the ODF     *)
(* lexical space of its value type (recognisers of Codec.tla + a number      *)
(* recogniser).                                                              *)
(***************************************************************************)
EXTENDS Codec, IOUtils, TLCExt

T == INSTANCE Typed WITH Chains <- [x \in {} |-> <<>>], dummy <- 0
Records == JsonDeserialize(IOEnv.TRACE_FILE)
Has(r, f) == f \in DOMAIN r

(* xsd:double / decimal lexical form:  [+-]? digits [. digits]? ([eE] [+-]? digits)?  or  [+-]? . digits *)
RECURSIVE SkipDigits(_)
SkipDigits(s) == IF s # <<>> /\ Digit(Head(s)) THEN SkipDigits(Tail(s)) ELSE s
IsNumber(str) ==
    LET s0 == IF str # <<>> /\ Head(str) \in {PLUS, MINUS} THEN Tail(str) ELSE str
        s1 == SkipDigits(s0)
        intDigits == Len(s0) - Len(s1)
        s2 == IF s1 # <<>> /\ Head(s1) = DOT THEN SkipDigits(Tail(s1)) ELSE s1
        fracDigits == IF s1 # <<>> /\ Head(s1) = DOT THEN Len(s1) - 1 - Len(s2) ELSE 0
        hasExp == s2 # <<>> /\ Head(s2) \in {69, 101}
        e0 == IF hasExp THEN Tail(s2) ELSE s2
        e1 == IF hasExp /\ e0 # <<>> /\ Head(e0) \in {PLUS, MINUS} THEN Tail(e0) ELSE e0
        e2 == IF hasExp THEN SkipDigits(e1) ELSE e1
    IN /\ intDigits + fracDigits >= 1
       /\ (hasExp => Len(e1) - Len(e2) >= 1)
       /\ e2 = <<>>

IsTimePart(s) ==    \* hh:mm:ss[.f+][Z|+hh:mm|-hh:mm]
    /\ Len(s) >= 8 /\ Digit(s[1]) /\ Digit(s[2]) /\ s[3] = COLON /\ Digit(s[4]) /\ Digit(s[5]) /\ s[6] = COLON /\ Digit(s[7]) /\ Digit(s[8])
    /\ LET r1 == SubSeq(s, 9, Len(s))
           r2 == IF r1 # <<>> /\ Head(r1) = DOT THEN SkipDigits(Tail(r1)) ELSE r1
           fr == IF r1 # <<>> /\ Head(r1) = DOT THEN Len(r1) - 1 - Len(r2) ELSE 1
       IN /\ fr >= 1
          /\ \/ r2 = <<>>
             \/ r2 = <<CH_Z>>
             \/ (Len(r2) = 6 /\ r2[1] \in {PLUS, MINUS} /\ Digit(r2[2]) /\ Digit(r2[3]) /\ r2[4] = COLON /\ Digit(r2[5]) /\ Digit(r2[6]))
IsDateTimeStr(s) == Len(s) >= 19 /\ IsDateStr(SubSeq(s, 1, 10)) /\ s[11] = CH_T /\ IsTimePart(SubSeq(s, 12, Len(s)))

Lexical(kind, s) ==
    CASE kind = "bool" -> s \in {<<116, 114, 117, 101>>, <<102, 97, 108, 115, 101>>}
      [] kind \in {"int", "float", "decimal"} -> IsNumber(s)
      [] kind = "date" -> IsDateStr(s)
      [] kind = "datetime" -> IsDateTimeStr(s)
      [] kind = "timedelta" -> IsDuration(s)
      [] OTHER -> TRUE

Verdict(r) ==
    IF Has(r, "exc") THEN {"exc"}
    ELSE (IF r.vtype # T!ValueType(r.kind) THEN {"value-type"} ELSE {})
    \cup (IF r.attr # (IF r.carrier = "meta" THEN "text" ELSE T!ValueAttr(T!ValueType(r.kind))) THEN {"value-attribute"} ELSE {})
    \cup (IF ~Lexical(r.kind, r.text) THEN {"not-in-lexical-space"} ELSE {})
    \cup (IF r.back_kind # T!BackKind(r.kind, r.integral) THEN {"read-back-type"} ELSE {})
    \cup (IF ~r.equal THEN {"read-back-value"} ELSE {})
    \cup (IF Has(r, "equal_reparsed") /\ ~r.equal_reparsed THEN {"value-after-reparse"} ELSE {})
    \cup (IF Has(r, "equal_reloaded") /\ ~r.equal_reloaded THEN {"value-after-save-reopen"} ELSE {})

VARIABLES l, bad
vars == <<l, bad>>
Init == l = 1 /\ bad = {}
Next == /\ l <= Len(Records)
        /\ bad' = bad \cup {[l |-> l, clause |-> c] : c \in Verdict(Records[l])}
        /\ l' = l + 1
Spec == Init /\ [][Next]_vars
Done == l > Len(Records)
Report == Done => PrintT(ToJson([verdicts |-> bad, records |-> Len(Records)]))
=============================================================================
