----------------------------- MODULE MetaStore -----------------------------
(***************************************************************************)
(* The document's metadata (meta.xml) as the API presents it: a record of   *)
(* independent fields.  set_<field>(v) with an acceptable value changes      *)
(* that field and nothing else, a refused value changes nothing, every       *)
(* field reads back what was last stored (read your writes), also after the  *)
(* document is saved and opened again.  Values are abstract: 1..NV index the *)
(* concrete typed values the binding uses for the field (strings with        *)
(* XML-special characters and blanks, aware / naive datetimes, durations of  *)
(* more than a day, integers), 0 is "what the template held", BAD is a value *)
(* of the field's type that the setter documents as refused.                 *)
(* TLC enumerates every history of MaxOps calls and dumps the transitions;   *)
(* each is replayed on a real Document (binding A, C06's carriers in meta).  *)
(***************************************************************************)
EXTENDS Naturals, Sequences, TLC, Json

CONSTANTS Fields,      \* names of the fields
          Refusing,    \* the fields whose setter documents refused values
          NV, MaxOps, Dump

BAD == 99
VARIABLES m, n, op
vars == <<m, n, op>>

Init == m = [f \in Fields |-> 0] /\ n = 0 /\ op = [op |-> "init"]
Set(f, v) == IF v = BAD THEN m ELSE [m EXCEPT ![f] = v]
Next == /\ n < MaxOps
        /\ n' = n + 1
        /\ \E f \in Fields : \E v \in (1..NV) \cup (IF f \in Refusing THEN {BAD} ELSE {}) :
              /\ m' = Set(f, v)
              /\ op' = [op |-> "set", f |-> f, v |-> v]
Spec == Init /\ [][Next]_vars
View == <<m, n>>
Emit == IF Dump THEN PrintT(ToJson([pre |-> m, op |-> op', post |-> m'])) ELSE TRUE

ReadYourWrites == [][op'.v # BAD => m'[op'.f] = op'.v]_vars
Independent == [][\A g \in Fields : g # op'.f => m'[g] = m[g]]_vars
RefusedChangesNothing == [][op'.v = BAD => m' = m]_vars
=============================================================================
