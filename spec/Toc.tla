-------------------------------- MODULE Toc --------------------------------
(***************************************************************************)
(* C20 - a filled table of contents lists exactly the headings, in order,  *)
(* numbered right.                                                          *)
(* heads: sequence of heading levels (1..10) in document order.             *)
(* Number is defined twice: Machine = the counter bookkeeping of            *)
(* TOC._header_numbering / odfdo-headers (transcription), Declared = an     *)
(* independent definition: at every level l <= level(i), count, since the   *)
(* last heading shallower than l, the headings of level l, plus one         *)
(* implicit ancestor if that stretch starts with a deeper heading.  TLC     *)
(* checks Machine = Declared for every level sequence up to a bound, that   *)
(* filling lists exactly the headings with level <= outline in order, and   *)
(* prints the expected entries for replay on real documents (binding A).    *)
(***************************************************************************)
EXTENDS Naturals, Sequences, FiniteSets, TLC, Json

CONSTANTS Levels, MaxLen, Outlines, Dump

(* ---- the counter machine: idx is a function level -> counter, 0 = unset *)
AllLevels == 1..10
Step(idx, lv) ==   \* returns [idx |-> new counters, num |-> numbers of this heading]
    LET before == [l \in AllLevels |-> IF l < lv /\ idx[l] = 0 THEN 1 ELSE idx[l]]
        here == before[lv] + 1
        after == [l \in AllLevels |-> IF l = lv THEN here ELSE IF l > lv THEN 0 ELSE before[l]]
    IN [idx |-> after, num |-> [l \in 1..lv |-> after[l]]]

RECURSIVE Run(_, _, _)
Run(heads, idx, outline) ==     \* entries of the headings with level <= outline, in order
    IF heads = <<>> THEN <<>>
    ELSE IF Head(heads) > outline THEN Run(Tail(heads), idx, outline)
    ELSE LET s == Step(idx, Head(heads))
         IN <<[level |-> Head(heads), num |-> s.num]>> \o Run(Tail(heads), s.idx, outline)
Effective(outline) == IF outline = 0 THEN 10 ELSE outline     \* "outline_level or 10"
Machine(heads, outline) == Run(heads, [l \in AllLevels |-> 0], Effective(outline))

(* ---- the declarative definition, over the listed headings only *)
Listed(heads, outline) == SelectSeq(heads, LAMBDA lv : lv <= Effective(outline))
DeclNum(hs, i, l) ==
    LET ks == {k \in 1..(i - 1) : hs[k] < l}
        k0 == IF ks = {} THEN 0 ELSE CHOOSE k \in ks : \A j \in ks : j <= k
        seg == (k0 + 1)..i
        c == Cardinality({j \in seg : hs[j] = l})
        implicit == IF hs[k0 + 1] > l THEN 1 ELSE 0
    IN c + implicit
Declared(heads, outline) ==
    LET hs == Listed(heads, outline)
    IN [i \in 1..Len(hs) |-> [level |-> hs[i], num |-> [l \in 1..hs[i] |-> DeclNum(hs, i, l)]]]

VARIABLES heads
Seqs == UNION {[1..n -> Levels] : n \in 0..MaxLen}
Init == heads \in Seqs
Next == UNCHANGED heads
Spec == Init /\ [][Next]_heads

MachineIsDeclared == \A o \in Outlines : Machine(heads, o) = Declared(heads, o)
ListsExactly == \A o \in Outlines :
    [i \in 1..Len(Machine(heads, o)) |-> Machine(heads, o)[i].level] = Listed(heads, o)
NumbersPositive == \A o \in Outlines : \A i \in 1..Len(Machine(heads, o)) :
    \A l \in 1..Machine(heads, o)[i].level : Machine(heads, o)[i].num[l] >= 1
Emit == IF Dump THEN PrintT(ToJson([heads |-> heads, toc |-> [o \in Outlines |-> Machine(heads, o)]])) ELSE TRUE
=============================================================================
