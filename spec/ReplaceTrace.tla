---------------------------- MODULE ReplaceTrace ----------------------------
(***************************************************************************)
(* C16 - search and replace act on the text exactly as the regular          *)
(* expression says.  Token model of Markup.tla.  The regular-expression     *)
(* ENGINE is not what is verified: each event carries, per text slot of the *)
(* paragraph before the call, the match spans Python's re finds in that     *)
(* slot (for literal patterns TLC recomputes them and cross-checks).  What   *)
(* TLC verifies is the walk over slots, tails and markup:                   *)
(*   count    = number of matches inside the individual slots, nothing       *)
(*              changes;                                                     *)
(*   replace  = exactly those spans rewritten, markup and every other        *)
(*              character in place;                                          *)
(*   formatted replace = same text, same markup skeleton, and every slot     *)
(*              held by a paragraph / heading / span in the white-space      *)
(*              normal form of a freshly created paragraph;                  *)
(*   search   = positions index the element's own text: text_at(start, end)  *)
(*              gives back the match, and for link-free content the          *)
(*              positions are those in the readable text.                    *)
(***************************************************************************)
(* (an event with op.via = "script" is the same replacement made by the odfdo-replace command's function on a saved   *)
(*  document and observed after reopening the result: it returns no count, every other clause applies)            *)
EXTENDS Markup, Json, IOUtils, TLCExt

Traces == JsonDeserialize(IOEnv.TRACE_FILE)
Has(r, f) == f \in DOMAIN r

(* rewrite one slot: spans are <<start, end>> pairs, 0-based, end exclusive, *)
(* ascending and non-overlapping                                             *)
RECURSIVE Rewrite(_, _, _, _)
Rewrite(s, spans, new, from) ==      \* from: 0-based index of the next unread char
    IF spans = <<>> THEN SubSeq(s, from + 1, Len(s))
    ELSE LET sp == Head(spans)
         IN SubSeq(s, from + 1, sp[1]) \o new \o Rewrite(s, Tail(spans), new, sp[2])

RECURSIVE RewriteAll(_, _, _)
RewriteAll(ts, spans, new) ==        \* spans: one list per text token, in order
    IF ts = <<>> THEN <<>>
    ELSE IF Head(ts).k = "t"
         THEN <<T(Rewrite(Head(ts).s, Head(spans), new, 0))>> \o RewriteAll(Tail(ts), Tail(spans), new)
         ELSE <<Head(ts)>> \o RewriteAll(Tail(ts), spans, new)

RECURSIVE TotalSpans(_)
TotalSpans(spans) == IF spans = <<>> THEN 0 ELSE Len(Head(spans)) + TotalSpans(Tail(spans))

(* literal pattern: the spans TLC finds itself *)
LitSpans(s, p) == LET oc == Occ(s, p, 1) IN [i \in 1..Len(oc) |-> <<oc[i] - 1, oc[i] - 1 + Len(p)>>]
RECURSIVE SlotSpans(_, _)
SlotSpans(ts, p) == IF ts = <<>> THEN <<>>
                    ELSE (IF Head(ts).k = "t" THEN <<LitSpans(Head(ts).s, p)>> ELSE <<>>) \o SlotSpans(Tail(ts), p)

(* markup skeleton: everything but character data and white-space elements *)
RECURSIVE Skeleton(_)
Skeleton(ts) == IF ts = <<>> THEN <<>>
                ELSE (IF Head(ts).k \in {"o", "c"} \/ (Head(ts).k = "e" /\ Head(ts).tag \notin {"s", "tab", "lb"})
                      THEN <<Head(ts)>> ELSE <<>>) \o Skeleton(Tail(ts))

(* ODF white-space normal form of the whole paragraph (spans and links are  *)
(* transparent for the collapsing, Para.tla): what an ODF consumer reads is  *)
(* exactly the text the library reports                                      *)
RECURSIVE ToNodes(_)
ToNodes(ts) ==
    IF ts = <<>> THEN <<>>
    ELSE LET x == Head(ts)
             y == CASE x.k = "t" -> <<P!T(x.s)>>
                    [] x.k = "e" /\ x.tag = "s" -> <<P!S(x.n)>>
                    [] x.k = "e" /\ x.tag = "tab" -> <<P!TabN>>
                    [] x.k = "e" /\ x.tag = "lb" -> <<P!LbN>>
                    [] OTHER -> <<>>
         IN y \o ToNodes(Tail(ts))
FormattedOK(ts) == P!Collapse(ToNodes(ts)) = Decode(ts)

(* the text a paragraph searches in when it holds links: a link counts as "[its text, stripped](its address)" - the      *)
(* characters of the white-space elements inside the link included ("(address)" alone when the link has no text)           *)
Blank(c) == c \in {9, 10, 11, 12, 13, 28, 29, 30, 31, 32, 133, 160, 5760, 8232, 8233, 8239, 8287, 12288} \cup (8192..8202)
RECURSIVE LStrip(_)
LStrip(s) == IF s # <<>> /\ Blank(Head(s)) THEN LStrip(Tail(s)) ELSE s
RECURSIVE RStrip2(_)
RStrip2(s) == IF s # <<>> /\ Blank(s[Len(s)]) THEN RStrip2(SubSeq(s, 1, Len(s) - 1)) ELSE s
RECURSIVE OwnWithLinks(_, _)
OwnWithLinks(ts, url) ==
    IF ts = <<>> THEN <<>>
    ELSE IF Head(ts).k = "o" /\ Head(ts).tag = "a"
         THEN LET j == CloseOf(ts, 1, 0)
                  inner == RStrip2(LStrip(OwnWithLinks(SubSeq(ts, 2, j - 1), url)))
                  shown == IF inner = <<>> THEN <<40>> \o url \o <<41>> ELSE <<91>> \o inner \o <<93, 40>> \o url \o <<41>>
              IN shown \o OwnWithLinks(SubSeq(ts, j + 1, Len(ts)), url)
         ELSE Decode(<<Head(ts)>>) \o OwnWithLinks(Tail(ts), url)

Verdict(ev) ==
    LET o == ev.op
        want == RewriteAll(ev.pre, ev.spans, IF Has(o, "new") THEN o.new ELSE <<>>)
    IN  (IF Has(ev, "exc") THEN {"exc"} ELSE {})
   \cup (IF Has(o, "p") /\ ev.spans # SlotSpans(ev.pre, o.p) THEN {"harness:spans-differ-from-literal-occurrences"} ELSE {})
   \cup (IF o.op \in {"count", "replace"} /\ ~Has(ev, "exc") /\ ~Has(o, "via") /\ ev.ret # TotalSpans(ev.spans) THEN {"count"} ELSE {})
   \cup (IF o.op = "count" /\ Flat0(ev.post) # Flat0(ev.pre) THEN {"count-changed-element"} ELSE {})
   \cup (IF o.op = "replace" /\ ~o.formatted /\ Flat0(ev.post) # Flat0(want) THEN {"replace-result"} ELSE {})
   \cup (IF o.op = "replace" /\ o.formatted /\ Decode(ev.post) # Decode(want) THEN {"formatted-text"} ELSE {})
   \cup (IF o.op = "replace" /\ Skeleton(ev.post) # Skeleton(ev.pre) THEN {"markup-moved"} ELSE {})
   \* (a pure deletion has no white space to encode; it may empty an element in front of a space)
   \cup (IF o.op = "replace" /\ o.formatted /\ o.new # <<>> /\ ~FormattedOK(ev.post) THEN {"formatted-not-normal-form"} ELSE {})
   \cup (IF o.op = "search" /\ \E i \in 1..Len(ev.found) :
                 \/ ev.found[i].s < 0 \/ ev.found[i].e < ev.found[i].s \/ ev.found[i].e > Len(ev.own)      \* a position outside the text
                 \/ ev.found[i].text # SubSeq(ev.own, ev.found[i].s + 1, ev.found[i].e)
         THEN {"search-position"} ELSE {})
   \* text_at(start[, end]) for any integers: a negative start counts as 0, an end before the start as the start, no end
   \* (recorded as -1) as the end of the text, an end beyond the text as the end of the text
   \cup (IF o.op = "search" /\ Has(ev, "slices") /\ \E i \in 1..Len(ev.slices) :
                LET sl == ev.slices[i]
                    a == IF sl.s < 0 THEN 0 ELSE sl.s
                    b == IF sl.e = -1 THEN Len(ev.own) ELSE IF sl.e < a THEN a ELSE IF sl.e > Len(ev.own) THEN Len(ev.own) ELSE sl.e
                IN sl.text # (IF a >= Len(ev.own) THEN <<>> ELSE SubSeq(ev.own, a + 1, b))
         THEN {"text-at-slice"} ELSE {})
   \cup (IF o.op = "search" /\ ev.linkfree /\ ev.own # Decode(ev.pre) THEN {"own-text"} ELSE {})
   \cup (IF o.op = "search" /\ ~ev.linkfree /\ Has(ev, "url") /\ ~Has(ev, "exc") /\ ev.own # OwnWithLinks(ev.pre, ev.url) THEN {"own-text-with-links"} ELSE {})
   \cup (IF o.op = "search" /\ Has(o, "p") /\ ev.linkfree /\
            [i \in 1..Len(ev.found) |-> ev.found[i].s + 1] # Occ(Decode(ev.pre), o.p, 1) THEN {"search-all"} ELSE {})
   \cup (IF o.op = "search" /\ Flat0(ev.post) # Flat0(ev.pre) THEN {"search-changed-element"} ELSE {})
   \cup (IF o.op = "search" /\ ~Has(ev, "exc") /\ ~(ev.first_ok /\ ev.match_ok) THEN {"search-first-or-match-disagree"} ELSE {})
   \cup (IF o.op = "search" /\ ~Has(ev, "exc") /\ [i \in 1..Len(ev.found) |-> <<ev.found[i].s, ev.found[i].e>>] # ev.expect THEN {"search-all-vs-regex"} ELSE {})

VARIABLES tid, l, bad
vars == <<tid, l, bad>>
Init == tid = 1 /\ l = 1 /\ bad = {}
Consume == /\ l <= Len(Traces[tid])
           /\ bad' = bad \cup {[tid |-> tid, l |-> l, clause |-> c] : c \in Verdict(Traces[tid][l])}
           /\ l' = l + 1 /\ UNCHANGED tid
NextTrace == /\ l > Len(Traces[tid]) /\ tid < Len(Traces)
             /\ tid' = tid + 1 /\ l' = 1 /\ UNCHANGED bad
Next == Consume \/ NextTrace
Spec == Init /\ [][Next]_vars
Done == tid = Len(Traces) /\ l > Len(Traces[tid])
Report == Done => PrintT(ToJson([verdicts |-> bad, traces |-> Len(Traces)]))
=============================================================================
