------------------------------- MODULE ParaMC -------------------------------
(***************************************************************************)
(* Bounded exhaustive model for C05: every string over Alphabet up to      *)
(* MaxLen, built by every sequence of appends of chunks of length 1..3.     *)
(* With Dump the transitions are printed for replay on real Paragraph /     *)
(* Header / Span objects (binding A).                                       *)
(***************************************************************************)
EXTENDS Para, Json

CONSTANTS Alphabet, MaxLen, MaxChunk, Dump

VARIABLES nodes, acc, last
vars == <<nodes, acc, last>>

ChunksOf == UNION {[1..n -> Alphabet] : n \in 1..MaxChunk}

Init == nodes = <<>> /\ acc = <<>> /\ last = <<>>
Next == \E ch \in ChunksOf :
          /\ Len(acc) + Len(ch) <= MaxLen
          /\ nodes' = AppendPlain(nodes, ch)
          /\ acc' = acc \o ch
          /\ last' = ch
Spec == Init /\ [][Next]_vars
View == <<nodes, acc>>

RoundTrip == Decode(nodes) = acc
NormalForm == Collapse(nodes) = acc
Shape == WellFormedNodes(nodes)
Emit == IF Dump THEN PrintT(ToJson([pre |-> nodes, chunk |-> last', post |-> nodes', acc |-> acc'])) ELSE TRUE
=============================================================================
