---------------------------- MODULE MarkupTrace ----------------------------
(***************************************************************************)
(* Trace validation for C09: histories of insertions / removals on real     *)
(* paragraphs.  Each event carries the operation, and the token list read   *)
(* from the XML before and after by an independent lxml walk.  TLC applies  *)
(* the Markup.tla operator to the recorded pre-state and requires the       *)
(* recorded post-state to be the same paragraph (white-space elements       *)
(* folded), plus the clauses of C09 directly on the observation.            *)
(***************************************************************************)
EXTENDS Markup, Json, IOUtils, TLCExt

(* (Markup instantiates Para as P for the content of new spans) *)

Traces == JsonDeserialize(IOEnv.TRACE_FILE)
Has(r, f) == f \in DOMAIN r
Inserting == {"wrap_offset", "wrap_pattern", "mark_occurrence", "mark_position", "mark_range", "mark_content", "mark_element", "mark_first_child", "move_end"}

(* calls harvested from the repository's own tests: the arguments are not translated, only the class of the call  *)
(* is known - the clauses of C09 / C05 that are stated on the observation alone still apply                        *)
Harvested == {"harvest_insert", "harvest_strip", "harvest_append"}
HarvestVerdict(ev) ==
    IF Has(ev, "exc") THEN (IF Flat0(ev.post) # Flat0(ev.pre) THEN {"partial-modification"} ELSE {})
    ELSE (IF ev.op.op = "harvest_insert" /\ Vis(ev.post) # Vis(ev.pre) THEN {"text-altered"} ELSE {})
    \cup (IF ev.op.op = "harvest_strip" /\ Vis(ev.post) # Vis(ev.pre) THEN {"removal-lost-text"} ELSE {})
    \cup (IF ev.op.op = "harvest_append" /\ Vis(ev.post) # Vis(ev.pre) \o ev.op.text THEN {"appended-text-differs"} ELSE {})

ModelVerdict(ev) ==
    LET want == Flat(ApplyOp(ev.pre, ev.op))
        (* a paragraph without any text node: whether position 0 exists depends on an unobservable detail *)
        (* (text "" or no text at all), so both "not found" and "inserted at the very start" are accepted *)
        alt == IF ev.op.op = "mark_position" /\ ev.op.pos = 0 /\ MarkSlotPosition(ev.pre, 0) = 0
               THEN Flat(<<E("bm", 0)>> \o ev.pre)
               ELSE IF ev.op.op = "mark_range" /\ ev.op.a = 0 /\ ev.op.b = 0 /\ MarkSlotPosition(ev.pre, 0) = 0
               THEN Flat(<<E("bm", 0), E("bm", 0)>> \o ev.pre)
               (* ReferenceMarkStart.delete(): the matching end mark (token "pair") goes too, when the library finds it *)
               ELSE IF ev.op.op = "delete" /\ Has(ev.op, "pair") /\ ev.op.pair # ev.op.i
               THEN LET hi == IF ev.op.pair > ev.op.i THEN ev.op.pair ELSE ev.op.i
                        lo == IF ev.op.pair > ev.op.i THEN ev.op.i ELSE ev.op.pair
                    IN Flat(DeleteAt(DeleteAt(ev.pre, hi), lo))
               (* strip_tags on an inline element whose own tag is stripped: whether the new paragraph takes the element's tail *)
               (* along is not settled by the property - both are accepted, every character INSIDE must be there               *)
               ELSE IF ev.op.op = "strip_self" /\ ev.pre[ev.op.i].k = "o" /\ ev.pre[ev.op.i].tag = ev.op.tag
               THEN Flat(StripSelf(ev.pre, ev.op.i, ev.op.tag, FALSE))
               ELSE want
    IN  (IF Flat(ev.post) \notin {want, alt} THEN {"differs-from-model"} ELSE {})
   \cup (IF ev.op.op \in Inserting /\ Vis(ev.post) # Vis(ev.pre) THEN {"text-altered"} ELSE {})
   \cup (IF ev.op.op = "strip_tags" /\ Vis(ev.post) # Vis(ev.pre) THEN {"removal-lost-text"} ELSE {})
   \cup (IF Has(ev, "exc") /\ Flat(ev.post) # Flat(ev.pre) THEN {"partial-modification"} ELSE {})
   \cup (IF Has(ev, "orig") /\ Flat(ev.orig) # Flat(ev.pre) THEN {"copy-operation-changed-original"} ELSE {})

Verdict(ev) == IF ev.op.op \in Harvested THEN HarvestVerdict(ev) ELSE ModelVerdict(ev)

VARIABLES tid, l, bad
vars == <<tid, l, bad>>
Init == tid = 1 /\ l = 1 /\ bad = {}
Consume == /\ l <= Len(Traces[tid])
           /\ bad' = bad \cup {[tid |-> tid, l |-> l, clause |-> c] : c \in Verdict(Traces[tid][l])}
           /\ l' = l + 1 /\ UNCHANGED tid
NextTrace == /\ l > Len(Traces[tid]) /\ tid < Len(Traces)
             /\ tid' = tid + 1 /\ l' = 1 /\ UNCHANGED bad
Next == Consume \/ NextTrace
Spec == Init /\ [][Next]_vars
Done == tid = Len(Traces) /\ l > Len(Traces[tid])
Report == Done => PrintT(ToJson([verdicts |-> bad, traces |-> Len(Traces)]))
=============================================================================
