------------------------------- MODULE Styles -------------------------------
(***************************************************************************)
(* C13 - styles land in the right container, stay unique by family + name,  *)
(* and are found again.                                                     *)
(*                                                                         *)
(* A document's style population: six containers, each a SEQUENCE (so that  *)
(* duplicates are representable) of styles [kind, family, name]:            *)
(*   "c.fonts" content.xml office:font-face-decls                            *)
(*   "c.auto"  content.xml office:automatic-styles                           *)
(*   "s.fonts" styles.xml  office:font-face-decls                            *)
(*   "s.styles" styles.xml office:styles      (common and default styles)    *)
(*   "s.auto"  styles.xml  office:automatic-styles (page layouts ...)        *)
(*   "s.master" styles.xml office:master-styles                              *)
(* kind: "common", "default" (style:default-style, no name), "auto",         *)
(* "master", "font", "layout".                                               *)
(*                                                                         *)
(* InsertStyle is the dispatch table of Document.insert_style (where the     *)
(* style goes, which existing style it replaces); Lookup is                  *)
(* Document.get_style (content first, then styles, containers in             *)
(* CONTEXT_MAPPING order); AutoName is _set_automatic_name.                   *)
(***************************************************************************)
EXTENDS Naturals, Sequences, FiniteSets, TLC

Containers == {"c.fonts", "c.auto", "s.fonts", "s.styles", "s.auto", "s.master"}
StdFamilies == {"paragraph", "text", "table-cell", "table"}     \* families of FAMILY_MAPPING used by the model
NONAME == ""

(* ai: the index carried by an automatic name "odfdo_auto_<ai>", 0 otherwise *)
(* (in recorded traces the harness parses it, so that any index is covered)  *)
AutoIndex(name) ==
    CASE name = "odfdo_auto_1" -> 1 [] name = "odfdo_auto_2" -> 2 [] name = "odfdo_auto_3" -> 3
      [] name = "odfdo_auto_4" -> 4 [] name = "odfdo_auto_5" -> 5 [] name = "odfdo_auto_6" -> 6 [] OTHER -> 0
St(kind, family, name) == [kind |-> kind, family |-> family, name |-> name, ai |-> AutoIndex(name)]

(* containers Document.get_style searches for a family, in order, per part *)
Contexts(part, family) ==
    CASE family = "font-face"   -> IF part = "s" THEN <<"s.fonts">> ELSE <<"c.fonts">>
      [] part = "c"             -> <<"c.fonts", "c.auto">>      \* content.xml has no office:styles
      [] family = "master-page" -> <<"s.master">>
      [] family = "page-layout" -> <<"s.auto">>
      [] OTHER                  -> <<"s.styles", "s.auto">>

Matches(s, family, name) ==
    /\ s.family = family
    /\ IF name = NONAME THEN s.kind = "default" ELSE (s.name = name /\ s.kind # "default")

RECURSIVE FindIn(_, _, _, _)
FindIn(doc, ctxs, family, name) ==     \* <<container, index>> of the first match, or <<"", 0>>
    IF ctxs = <<>> THEN <<"", 0>>
    ELSE LET c == Head(ctxs)
             hits == {i \in 1..Len(doc[c]) : Matches(doc[c][i], family, name)}
         IN IF hits # {} THEN <<c, CHOOSE i \in hits : \A j \in hits : i <= j>>
            ELSE FindIn(doc, Tail(ctxs), family, name)
PartLookup(doc, part, family, name) == FindIn(doc, Contexts(part, family), family, name)
(* Document.get_style: content.xml first, then styles.xml *)
Lookup(doc, family, name) ==
    LET c == PartLookup(doc, "c", family, name)
    IN IF c[2] # 0 THEN c ELSE PartLookup(doc, "s", family, name)

Remove(seq, i) == SubSeq(seq, 1, i - 1) \o SubSeq(seq, i + 1, Len(seq))

(* _set_automatic_name: odfdo_auto_<max index + 1> over the automatic styles *)
(* of the family (content.xml and styles.xml automatic-styles)               *)
AutoNameOf(i) == CASE i = 1 -> "odfdo_auto_1" [] i = 2 -> "odfdo_auto_2" [] i = 3 -> "odfdo_auto_3"
                   [] i = 4 -> "odfdo_auto_4" [] i = 5 -> "odfdo_auto_5" [] OTHER -> "odfdo_auto_6"
MaxOf(S) == IF S = {} THEN 0 ELSE CHOOSE m \in S : \A x \in S : x <= m
NextAutoIndex(doc, family) ==
    1 + MaxOf({doc[c][i].ai : <<c, i>> \in {<<cc, ii>> \in {"c.auto", "s.auto"} \X (1..400) :
                                     ii <= Len(doc[cc]) /\ doc[cc][ii].family = family}})
AutoName(doc, family) == AutoNameOf(NextAutoIndex(doc, family))

(* the dispatch: target container, the style as stored, and what is replaced *)
TargetG(doc, family, name, automatic, default, gen) ==
    CASE family = "master-page" -> [ok |-> TRUE, c |-> "s.master", st |-> St("master", family, name),
                                     ex |-> PartLookup(doc, "s", family, name)]
      [] family = "font-face" /\ default -> [ok |-> TRUE, c |-> "s.fonts", st |-> St("font", family, name),
                                     ex |-> PartLookup(doc, "s", family, name)]
      [] family = "font-face" -> [ok |-> TRUE, c |-> "c.fonts", st |-> St("font", family, name),
                                     ex |-> PartLookup(doc, "c", family, name)]
      [] family = "page-layout" -> [ok |-> TRUE, c |-> "s.auto", st |-> St("layout", family, name),
                                     ex |-> PartLookup(doc, "s", family, name)]
      [] family \in StdFamilies /\ name # NONAME /\ ~automatic /\ ~default ->
            [ok |-> TRUE, c |-> "s.styles", st |-> St("common", family, name), ex |-> PartLookup(doc, "s", family, name)]
      [] family \in StdFamilies /\ automatic /\ ~default /\ name # NONAME ->
            [ok |-> TRUE, c |-> "c.auto", st |-> St("auto", family, name), ex |-> PartLookup(doc, "c", family, name)]
      [] family \in StdFamilies /\ automatic /\ ~default /\ name = NONAME ->
            [ok |-> TRUE, c |-> "c.auto",
             st |-> [kind |-> "auto", family |-> family, name |-> IF gen = "" THEN AutoName(doc, family) ELSE gen,
                     ai |-> NextAutoIndex(doc, family)],
             ex |-> <<"", 0>>]
      [] family \in StdFamilies /\ ~automatic /\ default ->
            [ok |-> TRUE, c |-> "s.styles", st |-> St("default", family, NONAME), ex |-> PartLookup(doc, "s", family, NONAME)]
      [] OTHER -> [ok |-> FALSE, c |-> "", st |-> St("", "", ""), ex |-> <<"", 0>>]

Target(doc, family, name, automatic, default) == TargetG(doc, family, name, automatic, default, "")

(* the existing style is deleted FROM THE TARGET CONTAINER: when the lookup  *)
(* found it in another container of the part the call cannot proceed         *)
Proceeds(t) == t.ok /\ (t.ex[2] = 0 \/ t.ex[1] = t.c)
InsertStyleG(doc, family, name, automatic, default, gen) ==
    LET t == TargetG(doc, family, name, automatic, default, gen)
    IN IF ~Proceeds(t) THEN doc
       ELSE LET base == IF t.ex[2] # 0 THEN [doc EXCEPT ![t.c] = Remove(@, t.ex[2])] ELSE doc
            IN [base EXCEPT ![t.c] = Append(@, t.st)]
InsertStyle(doc, family, name, automatic, default) == InsertStyleG(doc, family, name, automatic, default, "")
Returned(doc, family, name, automatic, default) == Target(doc, family, name, automatic, default).st.name

(* merge_styles_from(other): every style of other replaces the style of the  *)
(* same family and name in the same part, or is added to the same container  *)
RECURSIVE MergeSeq(_, _, _, _)
MergeSeq(doc, part, c, ss) ==
    IF ss = <<>> THEN doc
    ELSE LET s == Head(ss)
             ex == PartLookup(doc, part, s.family, IF s.kind = "default" THEN NONAME ELSE s.name)
             base == IF ex[2] # 0 THEN [doc EXCEPT ![ex[1]] = Remove(@, ex[2])] ELSE doc
         IN MergeSeq([base EXCEPT ![c] = Append(@, s)], part, c, Tail(ss))
PartOf(c) == IF c \in {"c.fonts", "c.auto"} THEN "c" ELSE "s"
RECURSIVE MergeAll(_, _, _)
MergeAll(doc, other, cs) ==
    IF cs = <<>> THEN doc ELSE MergeAll(MergeSeq(doc, PartOf(Head(cs)), Head(cs), other[Head(cs)]), other, Tail(cs))
MergeFrom(doc, other) == MergeAll(doc, other, <<"c.fonts", "c.auto", "s.fonts", "s.styles", "s.auto", "s.master">>)

(* operations specified as relations on the population (C13): nothing that  *)
(* was there is lost or renamed                                              *)
Contains(post, pre) == \A c \in Containers : \A i \in 1..Len(pre[c]) : \E j \in 1..Len(post[c]) : post[c][j] = pre[c][i]
Count(d) == LET RECURSIVE Sum(_)
                Sum(cs) == IF cs = {} THEN 0 ELSE LET c == CHOOSE x \in cs : TRUE IN Len(d[c]) + Sum(cs \ {c})
            IN Sum(Containers)

Key(s) == <<s.kind = "default", s.family, s.name>>
UniqueIn(seq) == \A i, j \in 1..Len(seq) : (i # j) => Key(seq[i]) # Key(seq[j])
Unique(doc) == \A c \in Containers : UniqueIn(doc[c])
=============================================================================
