------------------------------- MODULE Span -------------------------------
(***************************************************************************)
(* C17 (cell spans): Table.set_span / Table.del_span on a W x H matrix of  *)
(* cells  [v : value as a sequence of atoms (<<>> empty, <<1>>, merged <<1,2>>), cs : columns spanned (0 = none), rs : rows *)
(* spanned, cov : covered cell].  TLC checks the laws of the property on    *)
(* every reachable matrix and dumps every transition for replay on a real   *)
(* Table (binding A).                                                       *)
(***************************************************************************)
EXTENDS Naturals, Sequences, FiniteSets, TLC, Json

CONSTANTS W, H, Vals, Dump

Cell(v) == [v |-> v, cs |-> 0, rs |-> 0, cov |-> FALSE]
IsSpanned(c) == c.cov \/ c.cs > 0 \/ c.rs > 0
InArea(x, y, a) == a.x <= x /\ x <= a.z /\ a.y <= y /\ y <= a.t

Areas == {a \in [x : 0..(W - 1), y : 0..(H - 1), z : 0..(W - 1), t : 0..(H - 1)] : a.x <= a.z /\ a.y <= a.t}

(* values met in the area in row-major order, empty ones skipped *)
RECURSIVE MergedValues(_, _, _)
MergedValues(m, a, k) ==   \* k counts cells of the area, row-major, from 0
    LET w == a.z - a.x + 1
        n == w * (a.t - a.y + 1)
    IN IF k >= n THEN <<>>
       ELSE LET x == a.x + (k % w)
                y == a.y + (k \div w)
                v == m[y + 1][x + 1].v
            IN v \o MergedValues(m, a, k + 1)

(* set_span(area, merge): result matrix and returned boolean *)
SetSpan(m, a, merge) ==
    IF a.x = a.z /\ a.y = a.t THEN [m |-> m, ok |-> FALSE]
    ELSE IF \E y \in a.y..a.t : \E x \in a.x..a.z : IsSpanned(m[y + 1][x + 1])
    THEN [m |-> m, ok |-> FALSE]
    ELSE
      LET vals == MergedValues(m, a, 0)
          top(c) == [c EXCEPT !.cs = a.z - a.x + 1, !.rs = a.t - a.y + 1,
                              !.v = IF merge /\ vals # <<>> THEN vals ELSE @]
          other(c) == [c EXCEPT !.cov = TRUE, !.v = IF merge THEN <<>> ELSE @]
      IN [m |-> [y \in 1..H |-> [x \in 1..W |->
                    IF ~InArea(x - 1, y - 1, a) THEN m[y][x]
                    ELSE IF x - 1 = a.x /\ y - 1 = a.y THEN top(m[y][x])
                    ELSE other(m[y][x])]],
          ok |-> TRUE]

(* del_span(cell): needs both span attributes on that cell *)
DelSpan(m, x, y) ==
    LET c == m[y + 1][x + 1]
    IN IF c.cs = 0 \/ c.rs = 0 THEN [m |-> m, ok |-> FALSE]
       ELSE LET a == [x |-> x, y |-> y, z |-> x + c.cs - 1, t |-> y + c.rs - 1]
            IN [m |-> [yy \in 1..H |-> [xx \in 1..W |->
                          IF ~InArea(xx - 1, yy - 1, a) THEN m[yy][xx]
                          ELSE IF xx - 1 = x /\ yy - 1 = y THEN [m[yy][xx] EXCEPT !.cs = 0, !.rs = 0]
                          ELSE [m[yy][xx] EXCEPT !.cov = FALSE]]],
                ok |-> TRUE]

VARIABLES m, op, ret
vars == <<m, op, ret>>

Init == /\ m \in [1..H -> [1..W -> {Cell(<<>>)} \cup {Cell(<<v>>) : v \in Vals}]]
        /\ op = [op |-> "init"] /\ ret = TRUE

DoSet == \E a \in Areas : \E mg \in BOOLEAN :
            LET r == SetSpan(m, a, mg)
            IN m' = r.m /\ ret' = r.ok /\ op' = [op |-> "set_span", a |-> a, merge |-> mg]
DoDel == \E x \in 0..(W - 1) : \E y \in 0..(H - 1) :
            LET r == DelSpan(m, x, y)
            IN m' = r.m /\ ret' = r.ok /\ op' = [op |-> "del_span", x |-> x, y |-> y]
Next == DoSet \/ DoDel
Spec == Init /\ [][Next]_vars
View == m

Emit == IF Dump THEN PrintT(ToJson([pre |-> m, op |-> op', post |-> m', ret |-> ret'])) ELSE TRUE

-----------------------------------------------------------------------------
(* the laws of the property *)
(* creating a span and deleting it restores the table (no merge) *)
SetThenDelRestores ==
    \A a \in Areas : LET r == SetSpan(m, a, FALSE)
                     IN r.ok => DelSpan(r.m, a.x, a.y).m = m
(* a span covers exactly the requested area *)
CoversExactly ==
    [][ (op'.op = "set_span" /\ ret') =>
          \A y \in 1..H : \A x \in 1..W :
             /\ (m'[y][x].cov # m[y][x].cov) <=> (InArea(x - 1, y - 1, op'.a) /\ ~(x - 1 = op'.a.x /\ y - 1 = op'.a.y))
             /\ (m'[y][x].cs # m[y][x].cs) => (x - 1 = op'.a.x /\ y - 1 = op'.a.y)
      ]_vars
(* refuses to overlap an existing span: then nothing changes *)
RefusesOverlap ==
    [][ (op'.op = "set_span" /\ \E y \in op'.a.y..op'.a.t : \E x \in op'.a.x..op'.a.z : IsSpanned(m[y + 1][x + 1]))
          => (m' = m /\ ~ret') ]_vars
(* never changes values unless merging was asked *)
ValuesKept ==
    [][ ~(op'.op = "set_span" /\ op'.merge) =>
          \A y \in 1..H : \A x \in 1..W : m'[y][x].v = m[y][x].v ]_vars
(* spans never overlap each other: every covered cell lies in exactly one span *)
Owner(x, y) == {<<sx, sy>> \in (0..(W - 1)) \X (0..(H - 1)) :
                  LET c == m[sy + 1][sx + 1]
                  IN c.cs > 0 /\ sx <= x /\ x < sx + c.cs /\ sy <= y /\ y < sy + c.rs /\ <<sx, sy>> # <<x, y>>}
NoOrphanCovered == \A y \in 0..(H - 1) : \A x \in 0..(W - 1) :
                      m[y + 1][x + 1].cov => Cardinality(Owner(x, y)) = 1
=============================================================================
