------------------------------- MODULE Coord -------------------------------
(***************************************************************************)
(* C19 - column letters <-> numbers, and named-range cell addresses.       *)
(*                                                                         *)
(* Part 1: DigitToAlpha / AlphaToDigit as coded (bijective base 26), checked *)
(* against an independent characterisation: the n-th column name is the     *)
(* n-th string of letters in short-lex order (odometer successor).          *)
(* Part 2: the address written for a named range ($Table.$A$1:.$B$2, table  *)
(* name quoted when it contains a space, a dot, an apostrophe or a dollar,  *)
(* apostrophes doubled) and its parser; Parse(Write(name, area)) = <<name,  *)
(* area>> for every name over an alphabet of significant characters.        *)
(* Strings are sequences of code points; letters are 1..26 in part 1.       *)
(***************************************************************************)
EXTENDS Naturals, Sequences, TLC, Json

CONSTANTS MaxN, NameAlphabet, MaxNameLen, Dump

-----------------------------------------------------------------------------
RECURSIVE Alpha(_)
Alpha(d) == IF d = 0 THEN <<>> ELSE Alpha((d - 1) \div 26) \o <<((d - 1) % 26) + 1>>
DigitToAlpha(n) == Alpha(n + 1)                 \* as coded

RECURSIVE Horner(_, _)
Horner(s, acc) == IF s = <<>> THEN acc ELSE Horner(Tail(s), acc * 26 + Head(s))
AlphaToDigit(s) == Horner(s, 0) - 1             \* as coded

(* odometer successor on letter strings (short-lex order) *)
RECURSIVE Succ(_)
Succ(s) == IF s = <<>> THEN <<1>>
           ELSE IF s[Len(s)] < 26 THEN SubSeq(s, 1, Len(s) - 1) \o <<s[Len(s)] + 1>>
           ELSE Succ(SubSeq(s, 1, Len(s) - 1)) \o <<1>>

-----------------------------------------------------------------------------
DOLLAR == 36
APOS == 39
DOT == 46
COLON == 58
SPACE == 32

RECURSIVE Dec(_)
Dec(n) == IF n < 10 THEN <<48 + n>> ELSE Dec(n \div 10) \o <<48 + (n % 10)>>
Letters(n) == [i \in 1..Len(DigitToAlpha(n)) |-> 64 + DigitToAlpha(n)[i]]

NeedsQuote(name) == \E i \in 1..Len(name) : name[i] \in {SPACE, DOT, APOS, DOLLAR}
RECURSIVE Doubled(_)
Doubled(s) == IF s = <<>> THEN <<>>
              ELSE (IF Head(s) = APOS THEN <<APOS, APOS>> ELSE <<Head(s)>>) \o Doubled(Tail(s))
Quoted(name) == IF NeedsQuote(name) THEN <<APOS>> \o Doubled(name) \o <<APOS>> ELSE name

CellAddr(x, y) == <<DOLLAR>> \o Letters(x) \o <<DOLLAR>> \o Dec(y + 1)
WriteBase(name, a) == <<DOLLAR>> \o Quoted(name) \o <<DOT>> \o CellAddr(a[1], a[2])
WriteRange(name, a) ==
    IF a[1] = a[3] /\ a[2] = a[4] THEN WriteBase(name, a)
    ELSE WriteBase(name, a) \o <<COLON, DOT>> \o CellAddr(a[3], a[4])

(* parser: optional leading $, quoted name up to the LAST "'." or bare name  *)
(* up to the first ".", apostrophes un-doubled, the rest is the area        *)
RECURSIVE Undouble(_)
Undouble(s) == IF s = <<>> THEN <<>>
               ELSE IF Len(s) >= 2 /\ s[1] = APOS /\ s[2] = APOS THEN <<APOS>> \o Undouble(SubSeq(s, 3, Len(s)))
               ELSE <<Head(s)>> \o Undouble(Tail(s))
LastQuoteDot(s) == CHOOSE i \in 1..(Len(s) - 1) :
                      /\ s[i] = APOS /\ s[i + 1] = DOT
                      /\ \A j \in (i + 1)..(Len(s) - 1) : ~(s[j] = APOS /\ s[j + 1] = DOT)
FirstDot(s) == CHOOSE i \in 1..Len(s) : s[i] = DOT /\ \A j \in 1..(i - 1) : s[j] # DOT
ParseName(addr) ==
    LET s == IF addr[1] = DOLLAR THEN Tail(addr) ELSE addr
    IN IF s[1] = APOS
       THEN LET i == LastQuoteDot(s) IN [name |-> Undouble(SubSeq(s, 2, i - 1)), rest |-> SubSeq(s, i + 2, Len(s))]
       ELSE LET i == FirstDot(s) IN [name |-> SubSeq(s, 1, i - 1), rest |-> SubSeq(s, i + 1, Len(s))]

-----------------------------------------------------------------------------
VARIABLES n, name
vars == <<n, name>>

Names == UNION {[1..k -> NameAlphabet] : k \in 1..MaxNameLen}
(* the table-name rule of Names.tla, restated for the generator *)
NameOK(s) == /\ s[1] # APOS /\ s[Len(s)] # APOS
             /\ s[1] # SPACE /\ s[Len(s)] # SPACE

Init == n = 0 /\ name \in {s \in Names : NameOK(s)}
(* the numbers are stepped through for ONE name only (no product) *)
Next == name = <<97>> /\ n < MaxN /\ n' = n + 1 /\ UNCHANGED name
Spec == Init /\ [][Next]_vars

RoundTrip == AlphaToDigit(DigitToAlpha(n)) = n
ShortLex  == DigitToAlpha(n + 1) = Succ(DigitToAlpha(n))
Lengths   == Len(DigitToAlpha(n)) = (IF n < 26 THEN 1 ELSE IF n < 702 THEN 2 ELSE IF n < 18278 THEN 3 ELSE 4)

Areas == {<<0, 0, 0, 0>>, <<2, 3, 2, 3>>, <<0, 0, 1, 2>>, <<27, 9, 30, 11>>}
AddressRoundTrip ==
    n = 0 => \A a \in Areas :
        LET p == ParseName(WriteRange(name, a))
        IN p.name = name /\ ParseName(WriteBase(name, a)).name = name

EmitAlpha == (Dump /\ (n < 800 \/ n % 97 = 0 \/ n > MaxN - 30)) =>
                PrintT(ToJson([n |-> n, alpha |-> DigitToAlpha(n)]))
EmitAddr == (Dump /\ n = 0) =>
                PrintT(ToJson([name |-> name,
                               base |-> WriteBase(name, <<2, 3, 2, 3>>),
                               range |-> WriteRange(name, <<0, 0, 1, 2>>)]))
=============================================================================
