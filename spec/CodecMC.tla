------------------------------ MODULE CodecMC ------------------------------
(***************************************************************************)
(* Boundary lattices for C18; one state per lattice point.  kind selects    *)
(* the codec.  Invariants are the inverse and lexical-form laws; Emit        *)
(* prints (value, encoded string) and, for durations and colours, every      *)
(* one-edit mutant with the verdict of the grammar (accepted value or        *)
(* reject) - the tables replayed into the real codecs (binding A).           *)
(***************************************************************************)
EXTENDS Codec

CONSTANTS Dump, Sub

DurSecs == {0, 1, 59, 60, 61, 3599, 3600, 3661, 86399}
DurDays == {0, 1, 2, 30, 365, 20000}      \* 20000 days * 86400 still fits TLC's 32-bit integers
Durations == {<<1, d, s>> : d \in DurDays, s \in DurSecs} \cup {<<0 - 1, d, s>> : d \in DurDays, s \in DurSecs \ {0}} \cup {<<0 - 1, d, 0>> : d \in DurDays \ {0}}

Years == {1, 2, 999, 1000, 1999, 2000, 2024, 9999}
Months == {1, 2, 12}
Days == {1, 28, 29, 30, 31}
Dates == {v \in [y : Years, mo : Months, d : Days] : ValidDate(v)}
Times == [h : {0, 12, 23}, mi : {0, 59}, s : {0, 59}, us : {0, 1, 500000, 999999}, off : {NAIVE, 0, 30, -30, 840, -840, 60}]
Channels == {0, 1, 15, 16, 127, 128, 254, 255}
Colors == Channels \X Channels \X Channels

VARIABLES kind, val
vars == <<kind, val>>
Init == \/ kind = "duration" /\ val \in Durations
        \/ kind = "date" /\ val \in Dates
        \/ kind = "datetime" /\ val \in {[y |-> 2024, mo |-> 2, d |-> 29], [y |-> 1, mo |-> 1, d |-> 1], [y |-> 9999, mo |-> 12, d |-> 31], [y |-> 999, mo |-> 12, d |-> 1]} \X Times
        \/ kind = "color" /\ val \in Colors
Next == UNCHANGED vars
Spec == Init /\ [][Next]_vars

DT == [y |-> val[1].y, mo |-> val[1].mo, d |-> val[1].d, h |-> val[2].h, mi |-> val[2].mi, s |-> val[2].s, us |-> val[2].us, off |-> val[2].off]

DurationInverse == kind = "duration" => DurParse(DurEncode(val)) = val
DurationLexical == kind = "duration" => IsDuration(DurEncode(val))
DateInverse == kind = "date" => (IsDateStr(DateEncode(val)) /\ DateDecode(DateEncode(val)) = val)
ColorInverse == kind = "color" => (IsColor(RgbToHex(val)) /\ HexToRgb(RgbToHex(val)) = val)

Emit ==
    IF ~Dump THEN TRUE
    ELSE CASE kind = "duration" ->
              PrintT(ToJson([kind |-> kind, val |-> val, str |-> DurEncode(val),
                             mutants |-> IF val[2] <= 30 THEN {[m |-> m, v |-> DurParse(m)] : m \in Mutants(DurEncode(val), Sub)} ELSE {}]))
           [] kind = "date" -> PrintT(ToJson([kind |-> kind, val |-> val, str |-> DateEncode(val)]))
           [] kind = "datetime" -> PrintT(ToJson([kind |-> kind, val |-> DT, str |-> DateTimeEncode(DT)]))
           [] kind = "color" -> PrintT(ToJson([kind |-> kind, val |-> val, str |-> RgbToHex(val)]))
=============================================================================
