------------------------------- MODULE Codec -------------------------------
(***************************************************************************)
(* C18 - date, time, duration, boolean, colour codecs: exact inverses, ODF  *)
(* lexical form.  Values are integers and field tuples, strings are          *)
(* sequences of code points; no number exceeds 2^31.                        *)
(*                                                                         *)
(* Duration: value = <<sign, days, secs>> (sign in {1,-1}, secs < 86400,    *)
(*   zero has sign 1).  DurEncode is the format the library writes           *)
(*   (PT%02dH%02dM%02dS, the days carried by the hours); DurParse is the     *)
(*   xsd:duration grammar restricted to D/H/M/S with whole seconds; the      *)
(*   recogniser IsDuration is that grammar.                                  *)
(* Date / DateTime: field tuples, ISO 8601 extended form, "Z" for +00:00,    *)
(*   fraction only when microseconds # 0.                                   *)
(* Colour: #rrggbb <-> <<r, g, b>>.                                          *)
(* TLC checks Decode(Encode(v)) = v and IsLexical(Encode(v)) over boundary   *)
(* lattices, computes for every single-character mutant of an encoding       *)
(* whether the grammar accepts it, and prints the tables for replay.         *)
(***************************************************************************)
EXTENDS Naturals, Integers, Sequences, TLC, Json

Digit(c) == c >= 48 /\ c <= 57
RECURSIVE Dec(_)
Dec(n) == IF n < 10 THEN <<48 + n>> ELSE Dec(n \div 10) \o <<48 + (n % 10)>>
Pad(n, w) == LET d == Dec(n) IN [i \in 1..(IF Len(d) >= w THEN 0 ELSE w - Len(d)) |-> 48] \o d
RECURSIVE Num(_, _)
Num(s, acc) == IF s = <<>> THEN acc ELSE Num(Tail(s), acc * 10 + (Head(s) - 48))

CH_P == 80  CH_T == 84  CH_H == 72  CH_M == 77  CH_S == 83  CH_D == 68
MINUS == 45 COLON == 58 DOT == 46 CH_Z == 90 PLUS == 43 HASH == 35

---------------------------------------------------------------------------
(* Duration *)
DurEncode(v) ==     \* v = <<sign, days, secs>>
    LET total == v[2] * 86400 + v[3]
        h == total \div 3600
        m == (total % 3600) \div 60
        s == total % 60
    IN (IF v[1] = -1 THEN <<MINUS>> ELSE <<>>) \o <<CH_P, CH_T>> \o Pad(h, 2) \o <<CH_H>> \o Pad(m, 2) \o <<CH_M>> \o Pad(s, 2) \o <<CH_S>>

(* lexer: digits* followed by a designator; returns <<ok, value, rest>> *)
RECURSIVE TakeDigits(_, _)
TakeDigits(s, acc) == IF s # <<>> /\ Digit(Head(s)) THEN TakeDigits(Tail(s), Append(acc, Head(s))) ELSE <<acc, s>>
Field(s, des) ==   \* optional field  digits+ des : <<present, value, rest>>
    LET r == TakeDigits(s, <<>>)
    IN IF r[1] # <<>> /\ r[2] # <<>> /\ Head(r[2]) = des /\ Len(r[1]) <= 9 THEN <<TRUE, Num(r[1], 0), Tail(r[2])>>
       ELSE <<FALSE, 0, s>>
Reject == <<0, 0, 0>>
DurParse(str) ==
    LET neg == str # <<>> /\ Head(str) = MINUS
        s1 == IF neg THEN Tail(str) ELSE str
    IN IF s1 = <<>> \/ Head(s1) # CH_P THEN Reject
       ELSE LET d == Field(Tail(s1), CH_D)
                s2 == d[3]
                hasT == s2 # <<>> /\ Head(s2) = CH_T
                s3 == IF hasT THEN Tail(s2) ELSE s2
                h == IF hasT THEN Field(s3, CH_H) ELSE <<FALSE, 0, s3>>
                mi == IF hasT THEN Field(h[3], CH_M) ELSE <<FALSE, 0, s3>>
                se == IF hasT THEN Field(mi[3], CH_S) ELSE <<FALSE, 0, s3>>
                rest == IF hasT THEN se[3] ELSE s3
                anyTime == h[1] \/ mi[1] \/ se[1]
            IN IF rest # <<>> \/ (hasT /\ ~anyTime) \/ (~d[1] /\ ~anyTime) THEN Reject
               ELSE LET total == d[2] * 86400 + h[2] * 3600 + mi[2] * 60 + se[2]
                    IN <<IF neg /\ total > 0 THEN -1 ELSE 1, total \div 86400, total % 86400>>
IsDuration(str) == DurParse(str) # Reject

(* every string one edit away from s: a character deleted, or replaced / inserted from Sub *)
Mutants(s, Sub) ==
    {SubSeq(s, 1, i - 1) \o SubSeq(s, i + 1, Len(s)) : i \in 1..Len(s)}
    \cup {SubSeq(s, 1, i - 1) \o <<c>> \o SubSeq(s, i + 1, Len(s)) : i \in 1..Len(s), c \in Sub}
    \cup {SubSeq(s, 1, i) \o <<c>> \o SubSeq(s, i + 1, Len(s)) : i \in 0..Len(s), c \in Sub}

---------------------------------------------------------------------------
(* Date and DateTime: v = [y, mo, d, h, mi, s, us, off]   off: minutes, 9999 = naive *)
NAIVE == 9999
DateEncode(v) == Pad(v.y, 4) \o <<MINUS>> \o Pad(v.mo, 2) \o <<MINUS>> \o Pad(v.d, 2)
OffEncode(off) ==
    IF off = NAIVE THEN <<>>
    ELSE IF off = 0 THEN <<CH_Z>>
    ELSE LET a == IF off < 0 THEN -off ELSE off
         IN <<IF off < 0 THEN MINUS ELSE PLUS>> \o Pad(a \div 60, 2) \o <<COLON>> \o Pad(a % 60, 2)
DateTimeEncode(v) ==
    DateEncode(v) \o <<CH_T>> \o Pad(v.h, 2) \o <<COLON>> \o Pad(v.mi, 2) \o <<COLON>> \o Pad(v.s, 2)
    \o (IF v.us = 0 THEN <<>> ELSE <<DOT>> \o Pad(v.us, 6)) \o OffEncode(v.off)

IsDateStr(s) == /\ Len(s) = 10 /\ s[5] = MINUS /\ s[8] = MINUS
                /\ \A i \in {1, 2, 3, 4, 6, 7, 9, 10} : Digit(s[i])
DateDecode(s) == [y |-> Num(SubSeq(s, 1, 4), 0), mo |-> Num(SubSeq(s, 6, 7), 0), d |-> Num(SubSeq(s, 9, 10), 0)]
DaysIn(y, mo) == IF mo \in {4, 6, 9, 11} THEN 30
                 ELSE IF mo = 2 THEN (IF (y % 4 = 0 /\ y % 100 # 0) \/ y % 400 = 0 THEN 29 ELSE 28) ELSE 31
ValidDate(v) == v.y \in 1..9999 /\ v.mo \in 1..12 /\ v.d \in 1..DaysIn(v.y, v.mo)

---------------------------------------------------------------------------
(* Colour *)
HexDigit(n) == IF n < 10 THEN 48 + n ELSE 65 + (n - 10)     \* upper case, as written
Hex2(n) == <<HexDigit(n \div 16), HexDigit(n % 16)>>
RgbToHex(c) == <<HASH>> \o Hex2(c[1]) \o Hex2(c[2]) \o Hex2(c[3])
HexVal(ch) == IF Digit(ch) THEN ch - 48 ELSE IF ch >= 97 /\ ch <= 102 THEN ch - 87 ELSE IF ch >= 65 /\ ch <= 70 THEN ch - 55 ELSE 99
IsColor(s) == Len(s) = 7 /\ s[1] = HASH /\ \A i \in 2..7 : HexVal(s[i]) # 99
HexToRgb(s) == <<HexVal(s[2]) * 16 + HexVal(s[3]), HexVal(s[4]) * 16 + HexVal(s[5]), HexVal(s[6]) * 16 + HexVal(s[7])>>
=============================================================================
