----------------------------- MODULE CodecTrace -----------------------------
(***************************************************************************)
(* Trace validation for C18: records of values encoded by the real codecs   *)
(* (random values inside the lattice cells of CodecMC).  TLC recomputes the  *)
(* expected lexical form from the value's fields with Codec.tla, requires    *)
(* the recorded string to be it, and the value the real decoder returned     *)
(* for that string (fields again) to be the original.                       *)
(***************************************************************************)
EXTENDS Codec, IOUtils, TLCExt

Records == JsonDeserialize(IOEnv.TRACE_FILE)
Has(r, f) == f \in DOMAIN r

Verdict(r) ==
    IF Has(r, "exc") THEN {"exc"}
    ELSE CASE r.kind = "duration" ->
              (IF r.str # DurEncode(r.val) THEN {"duration-lexical-form"} ELSE {})
         \cup (IF r.back # r.val THEN {"duration-not-inverse"} ELSE {})
         \cup (IF ~IsDuration(r.str) THEN {"duration-not-xsd"} ELSE {})
           [] r.kind = "date" ->
              (IF r.str # DateEncode(r.val) THEN {"date-lexical-form"} ELSE {})
         \cup (IF r.back # r.val THEN {"date-not-inverse"} ELSE {})
           [] r.kind = "datetime" ->
              (IF r.str # DateTimeEncode(r.val) THEN {"datetime-lexical-form"} ELSE {})
         \cup (IF r.back # r.val THEN {"datetime-not-inverse"} ELSE {})
           [] r.kind = "color" ->
              (IF r.str # RgbToHex(r.val) THEN {"color-lexical-form"} ELSE {})
         \cup (IF r.back # r.val THEN {"color-not-inverse"} ELSE {})
           [] OTHER -> {}

VARIABLES l, bad
vars == <<l, bad>>
Init == l = 1 /\ bad = {}
Next == /\ l <= Len(Records)
        /\ bad' = bad \cup {[l |-> l, clause |-> c] : c \in Verdict(Records[l])}
        /\ l' = l + 1
Spec == Init /\ [][Next]_vars
Done == l > Len(Records)
Report == Done => PrintT(ToJson([verdicts |-> bad, records |-> Len(Records)]))
=============================================================================
