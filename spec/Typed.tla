------------------------------- MODULE Typed -------------------------------
(***************************************************************************)
(* C06 - typed values survive the trip through the document.               *)
(*                                                                         *)
(* Python value kinds and the subtype facts that matter:                    *)
(*     bool is an int,  datetime is a date.                                 *)
(* A carrier (Cell / VarSet / UserFieldDecl / UserDefined via               *)
(* ElementTyped.set_value_and_type, Meta.set_user_defined_metadata) decides  *)
(* the ODF value type with an ORDERED chain of isinstance tests; the chains  *)
(* are EXTRACTED FROM THE SOURCE at run time (AST of the two functions) and  *)
(* given to TLC as the constant Chains.  MostSpecificFirst: for every kind   *)
(* the first test that matches is the test of its own class - no test is     *)
(* shadowed by an earlier test of a super-type.  The remaining operators     *)
(* state the documented correspondence used by the trace validator.          *)
(***************************************************************************)
EXTENDS Naturals, Sequences, TLC

CONSTANT Chains      \* carrier name -> sequence of test labels, as found in the code

Kinds == {"bool", "int", "float", "decimal", "str", "date", "datetime", "timedelta"}
(* which kinds an isinstance test on that class (group) accepts *)
Accepts(label) ==
    CASE label = "bool" -> {"bool"}
      [] label = "number" -> {"int", "float", "decimal", "bool"}      \* isinstance(v, (int, float, Decimal))
      [] label = "int" -> {"int", "bool"}
      [] label = "datetime" -> {"datetime"}
      [] label = "date" -> {"date", "datetime"}
      [] label = "str" -> {"str"}
      [] label = "timedelta" -> {"timedelta"}
      [] OTHER -> {}
Own(kind) == CASE kind = "bool" -> "bool"
               [] kind \in {"int", "float", "decimal"} -> "number"
               [] OTHER -> kind
FirstMatch(chain, kind) ==
    LET hits == {i \in 1..Len(chain) : kind \in Accepts(chain[i])}
    IN IF hits = {} THEN "none" ELSE chain[CHOOSE i \in hits : \A j \in hits : i <= j]
MostSpecificFirst == \A c \in DOMAIN Chains : \A k \in Kinds : FirstMatch(Chains[c], k) = Own(k)

(* documented correspondence *)
ValueType(kind) == CASE kind = "bool" -> "boolean"
                     [] kind \in {"int", "float", "decimal"} -> "float"
                     [] kind \in {"date", "datetime"} -> "date"
                     [] kind = "str" -> "string"
                     [] kind = "timedelta" -> "time"
ValueAttr(vtype) == CASE vtype = "boolean" -> "office:boolean-value"
                      [] vtype = "float" -> "office:value"
                      [] vtype = "date" -> "office:date-value"
                      [] vtype = "string" -> "office:string-value"
                      [] vtype = "time" -> "office:time-value"
(* kind of the value read back: integral numbers come back int, others       *)
(* Decimal; a date comes back as a midnight datetime                         *)
BackKind(kind, integral) ==
    CASE kind \in {"int", "float", "decimal"} -> IF integral THEN "int" ELSE "decimal"
      [] kind = "date" -> "datetime"
      [] OTHER -> kind

VARIABLE dummy
Init == dummy = 0
Next == UNCHANGED dummy
Spec == Init /\ [][Next]_dummy
=============================================================================
