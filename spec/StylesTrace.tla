----------------------------- MODULE StylesTrace -----------------------------
(***************************************************************************)
(* Trace validation for C13: insert_style / merge_styles_from on real       *)
(* documents (templates, samples with their real style populations).  Each  *)
(* event carries the style population of both documents before and after    *)
(* (independent XPath walk of the six containers, restricted to the         *)
(* families the model knows), the call's arguments, the returned name and   *)
(* what Document.get_style answered for it (container + position, also      *)
(* after save and reload).  TLC applies Styles.tla to the recorded          *)
(* pre-state.                                                               *)
(***************************************************************************)
EXTENDS Styles, Json, IOUtils, TLCExt

Traces == JsonDeserialize(IOEnv.TRACE_FILE)
Has(r, f) == f \in DOMAIN r

AsDoc(r) == [c \in Containers |-> r[c]]
(* populations are compared on [kind, family, name]; the parsed index ai is an input of the model only *)
Bare(s) == [kind |-> s.kind, family |-> s.family, name |-> s.name]
NoAi(d) == [c \in Containers |-> [i \in 1..Len(d[c]) |-> Bare(d[c][i])]]
(* merge: the order inside a container follows the other document's iteration order - compared as sets, with multiplicity *)
AsBag(d) == [c \in Containers |-> {<<Bare(d[c][i]), Cardinality({j \in 1..Len(d[c]) : Bare(d[c][j]) = Bare(d[c][i])})>> : i \in 1..Len(d[c])}]

(* a helper that makes up a style name (set_table_displayed, add_page_break_style) must not make a second style of a     *)
(* family + name that exists anywhere in the document: no pair is more numerous after the call than before, unless single *)
CountKey(d, k) == LET RECURSIVE Sum(_)
                      Sum(cs) == IF cs = {} THEN 0
                                 ELSE LET c == CHOOSE x \in cs : TRUE
                                      IN Cardinality({i \in 1..Len(d[c]) : Key(d[c][i]) = k}) + Sum(cs \ {c})
                  IN Sum(Containers)
NoNewHomonym(pre, post) ==
    \A c \in Containers : \A i \in 1..Len(post[c]) :
        LET k == Key(post[c][i]) IN CountKey(post, k) > 1 => CountKey(pre, k) >= CountKey(post, k)

Verdict(ev) ==
    LET o == ev.op
        pre == AsDoc(ev.pre)
        post == AsDoc(ev.post)
    IN IF o.op = "insert" THEN
         LET unnamed == o.automatic /\ ~o.default /\ o.name = NONAME /\ o.family \in StdFamilies
             gen == IF unnamed /\ ~Has(ev, "exc") THEN ev.ret ELSE ""     \* the generated name as observed ...
             t == TargetG(pre, o.family, o.name, o.automatic, o.default, gen)
             want == InsertStyleG(pre, o.family, o.name, o.automatic, o.default, gen)
         IN IF ~Proceeds(t) THEN {}      \* unspecified: same name in another container of the part
            ELSE (IF Has(ev, "exc") THEN {"exc"} ELSE {})
            \cup (IF ~Has(ev, "exc") /\ NoAi(post) # NoAi(want) THEN {"population-differs-from-model"} ELSE {})
            \cup (IF ~Has(ev, "exc") /\ ev.ret # t.st.name THEN {"returned-name"} ELSE {})
            \* ... but its index must be the one the model computes: max index of the family + 1
            \cup (IF ~Has(ev, "exc") /\ unnamed /\ ev.ret_ai # NextAutoIndex(pre, o.family) THEN {"automatic-name-not-fresh"} ELSE {})
            \cup (IF ~Has(ev, "exc") /\ ~Unique(post) THEN {"duplicate-family-name"} ELSE {})
            \cup (IF ~Has(ev, "exc") /\ Has(ev, "found") /\ ev.found # Lookup(want, o.family, t.st.name) THEN {"lookup"} ELSE {})
            \cup (IF ~Has(ev, "exc") /\ Has(ev, "found_reloaded") /\ ev.found_reloaded # Lookup(want, o.family, t.st.name) THEN {"lookup-after-reload"} ELSE {})
       ELSE IF o.op = "merge" THEN
            (IF Has(ev, "exc") THEN {"exc"} ELSE {})
            \cup (IF ~Has(ev, "exc") /\ AsBag(post) # AsBag(MergeFrom(pre, AsDoc(ev.pre_other))) THEN {"merge-result"} ELSE {})
            \cup (IF NoAi(AsDoc(ev.post_other)) # NoAi(AsDoc(ev.pre_other)) THEN {"merge-changed-other"} ELSE {})
            \cup (IF ~Has(ev, "exc") /\ Has(ev, "data_styles_wrong") /\ ev.data_styles_wrong # <<>> THEN {"merged-data-style-not-found-once"} ELSE {})
       ELSE IF o.op = "set_table_displayed" THEN
            (IF Has(ev, "exc") THEN {"exc"} ELSE {})
            \* a COPY of the table's style becomes the table's new automatic style: nothing is lost or renamed
            \cup (IF ~Has(ev, "exc") /\ ~Contains(post, pre) THEN {"set_table_displayed-lost-a-style"} ELSE {})
            \cup (IF ~Has(ev, "exc") /\ ~Unique(post) THEN {"duplicate-family-name"} ELSE {})
            \cup (IF ~Has(ev, "exc") /\ ~ev.table_style_found THEN {"lookup"} ELSE {})
            \cup (IF ~Has(ev, "exc") /\ ~NoNewHomonym(pre, post) THEN {"duplicate-family-name"} ELSE {})
       ELSE IF o.op = "add_page_break_style" THEN
            (IF Has(ev, "exc") THEN {"exc"} ELSE {})
            \cup (IF ~Has(ev, "exc") /\ ~(Contains(post, pre) /\ Count(post) <= Count(pre) + 1) THEN {"add_page_break_style"} ELSE {})
            \* the style is found again under its name, with the property that makes it a page break
            \cup (IF ~Has(ev, "exc") /\ Has(ev, "pagebreak_ok") /\ ~ev.pagebreak_ok THEN {"lookup"} ELSE {})
            \cup (IF ~Has(ev, "exc") /\ ~Unique(post) THEN {"duplicate-family-name"} ELSE {})
       ELSE {}

VARIABLES tid, l, bad
vars == <<tid, l, bad>>
Init == tid = 1 /\ l = 1 /\ bad = {}
Consume == /\ l <= Len(Traces[tid])
           /\ bad' = bad \cup {[tid |-> tid, l |-> l, clause |-> c] : c \in Verdict(Traces[tid][l])}
           /\ l' = l + 1 /\ UNCHANGED tid
NextTrace == /\ l > Len(Traces[tid]) /\ tid < Len(Traces)
             /\ tid' = tid + 1 /\ l' = 1 /\ UNCHANGED bad
Next == Consume \/ NextTrace
Spec == Init /\ [][Next]_vars
Done == tid = Len(Traces) /\ l > Len(Traces[tid])
Report == Done => PrintT(ToJson([verdicts |-> bad, traces |-> Len(Traces)]))
=============================================================================
