------------------------------ MODULE GridMC ------------------------------
(***************************************************************************)
(* Bounded exhaustive model of Grid.tla: every operation with every         *)
(* argument position from 0 to one-beyond-the-edge, every repeat count up   *)
(* to MaxRep, from every reachable table within MaxH x MaxW.                *)
(*                                                                         *)
(* TLC checks the clauses of C01/C07/C17 that are statements about the     *)
(* abstract design itself, and (with Emit as ACTION_CONSTRAINT) prints      *)
(* every transition  pre --op--> post  as one JSON line; the harness        *)
(* replays each of them into the real odfdo.Table (binding A).              *)
(***************************************************************************)
EXTENDS Grid, Json

CONSTANTS MaxH, MaxW, MaxRep, Vals, ColStyles, Dump

VARIABLES t, op
vars == <<t, op>>

Cells == Vals \cup {E}
Reps  == 1..MaxRep
RowsUpTo(w) == UNION {[1..k -> Cells] : k \in 0..w}

Xs == 0..(Width(t) + 1)
Ys == 0..(Height(t) + 1)

(* every operation the model may take in the current state *)
Ops ==
       [op : {"set_cell", "insert_cell"}, x : Xs, y : Ys, c : Cells, n : Reps]
  \cup [op : {"append_cell"}, y : Ys, c : Cells, n : Reps]
  \cup [op : {"delete_cell"}, x : Xs, y : Ys]
  \cup [op : {"set_row", "insert_row"}, y : Ys, r : RowsUpTo(2), n : Reps]
  \cup [op : {"append_row"}, r : RowsUpTo(2), n : Reps]
  \cup [op : {"delete_row"}, y : Ys]
  \cup [op : {"insert_column", "set_column"}, x : Xs, c : ColStyles, n : Reps]
  \cup [op : {"append_column"}, c : ColStyles, n : Reps]
  \cup [op : {"delete_column"}, x : Xs]
  \cup [op : {"set_values"}, x : 0..1, y : Ys, m : {<<<<1>>>>, <<<<1, 2>>, <<>>, <<E>>>>}]
  \cup [op : {"transpose", "clear"}]
  \cup [op : {"extend_rows"}, rs : {<<>>, <<[r |-> <<>>, n |-> 1]>>, <<[r |-> <<1>>, n |-> 2], [r |-> <<1, 2>>, n |-> 1]>>}]
  \cup [op : {"rstrip"}, c : {0, 1}]

Small(tt) == /\ Height(tt) <= MaxH
             /\ Width(tt) <= MaxW
             /\ \A y \in 1..Height(tt) : Len(tt.rows[y]) <= MaxW

Init == t = EmptyTable /\ op = [op |-> "init"]

Next == \E o \in Ops :
           /\ Small(Apply(t, o))
           /\ t' = Apply(t, o)
           /\ op' = o

Spec == Init /\ [][Next]_vars

Emit == IF Dump THEN PrintT(ToJson([pre |-> t, op |-> op', post |-> t'])) ELSE TRUE
(* one line per distinct table: what every read must answer in that state *)
EmitState == IF Dump THEN PrintT(ToJson([state |-> t, reads |-> Reads(t)])) ELSE TRUE
View == t

-----------------------------------------------------------------------------
(* C07 (abstract level): no row is wider than the declared columns; adding *)
(* the first row to a table declares its columns.  (Deleting the last      *)
(* column of a table that has rows is allowed, so "rows => columns" is NOT *)
(* an invariant of the design - TLC shows  append_row(<<>>); delete_column *)
(* (0)  - only the action property below is.)                              *)
InvWellFormed == WellFormed(t)
FirstRowDeclaresColumns ==
    [][ (Height(t) = 0 /\ Height(t') > 0) =>
            (Width(t') > 0 \/ (op'.op = "extend_rows" /\ MaxRowWidth(t') = 0)) ]_vars   \* rows without any cell declare nothing

(* C01: an operation addressed to one row / one cell changes that row only  *)
RowLocalOps == {"set_cell", "insert_cell", "append_cell", "delete_cell"}
RowLocal ==
    [][ op'.op \in RowLocalOps =>
          \A y \in 1..Height(t) : (y # op'.y + 1) => (y <= Height(t') /\ t'.rows[y] = t.rows[y])
      ]_vars

(* C01: inside the row, cells left of x are untouched; set_cell keeps the   *)
(* cells right of the written run, insert_cell shifts them by n             *)
CellLocal ==
    [][ (op'.op \in {"set_cell", "insert_cell"} /\ op'.y < Height(t)) =>
          LET old == t.rows[op'.y + 1]
              new == t'.rows[op'.y + 1]
          IN /\ \A i \in 1..Min(op'.x, Len(old)) : new[i] = old[i]
             /\ \A i \in 1..op'.n : new[op'.x + i] = op'.c
             /\ op'.op = "set_cell" =>
                   \A i \in (op'.x + op'.n + 1)..Len(old) : new[i] = old[i]
             /\ (op'.op = "insert_cell" /\ op'.x < Len(old)) =>
                   \A i \in (op'.x + 1)..Len(old) : new[i + op'.n] = old[i]
      ]_vars

(* C01: a column insertion or deletion shifts every row alike: what was at  *)
(* column k >= x is afterwards at k + n (k - 1) in every row                *)
ColumnShift ==
    [][ /\ op'.op = "insert_column" =>
             \A y \in 1..Height(t) : \A k \in 0..(Width(t) - 1) :
                 Value(t', IF k >= op'.x THEN k + op'.n ELSE k, y - 1) = Value(t, k, y - 1)
        /\ op'.op = "delete_column" =>
             \A y \in 1..Height(t) : \A k \in 0..(Width(t) - 1) :
                 k # op'.x => Value(t', IF k > op'.x THEN k - 1 ELSE k, y - 1) = Value(t, k, y - 1)
      ]_vars

(* C07: reported size = what the rows/columns add up to; rows ops never     *)
(* shrink the declared width                                                *)
WidthMonotone ==
    [][ op'.op \notin {"delete_column", "transpose", "rstrip", "clear"} => Width(t') >= Width(t) ]_vars

(* C17 laws at the abstract level *)
PopulatedMatrix(tt) == [y \in 1..Height(tt) |-> PadTo(tt.rows[y], MaxRowWidth(tt), E)]
TransposeInvolution ==
    MaxRowWidth(t) > 0 => PopulatedMatrix(Transpose(Transpose(t))) = PopulatedMatrix(t)
(* a square area inside the table transposed twice holds the values it held (rows may have been completed with empties) *)
TransposeAreaInvolution ==
    \A x \in 0..(Len(t.cols) - 1) : \A y \in 0..(Height(t) - 1) : \A k \in 0..1 :
        (x + k < Len(t.cols) /\ y + k < Height(t)) =>
            LET u == TransposeArea(TransposeArea(t, x, y, x + k, y + k), x, y, x + k, y + k)
            IN \A xx \in 0..(Len(t.cols) - 1) : \A yy \in 0..(Height(t) - 1) : V(Value(u, xx, yy)) = V(Value(t, xx, yy))
RStripIdempotent ==
    \A a \in BOOLEAN : RStrip(RStrip(t, a), a) = RStrip(t, a)
RStripKeepsValues ==
    \A a \in BOOLEAN : \A y \in 0..(Height(t) - 1) : \A x \in 0..(MaxW - 1) :
        ~IsEmptyCell(Value(t, x, y), a) => Value(RStrip(t, a), x, y) = Value(t, x, y)
=============================================================================
