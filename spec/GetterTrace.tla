---------------------------- MODULE GetterTrace ----------------------------
(***************************************************************************)
(* C08 - getters return correctly addressed, expanded, detached copies.    *)
(*                                                                         *)
(* For a table state t (Grid.tla) each getter is specified as the sequence  *)
(* of handles [x, y, c] it must return; the recorded events carry what the  *)
(* real getter returned (coordinates, content code, repeat attribute) and   *)
(* what the harness observed when it mutated each returned object           *)
(* (table_changed / other_changed) and whether the getter itself changed    *)
(* the table.  TLC gives every event a total verdict.                      *)
(***************************************************************************)
EXTENDS Grid, Json, IOUtils, TLCExt

Events == JsonDeserialize(IOEnv.TRACE_FILE)

Has(r, f) == f \in DOMAIN r
CellH(t, x, y) == [x |-> x, y |-> y, c |-> Value(t, x, y)]

(* cells of row y from column x to z (inclusive), clipped to the row *)
RowCells(t, y, x, z) ==
    LET last == Min(z, Len(RowAt(t, y)) - 1)
    IN [i \in 1..Max(0, last - x + 1) |-> CellH(t, x + i - 1, y)]

(* get_cells / cells: list (per existing row in y..tt) of lists of cells *)
GetCells(t, x, y, z, tt) ==
    LET last == Min(tt, Height(t) - 1)
    IN [i \in 1..Max(0, last - y + 1) |-> RowCells(t, y + i - 1, x, z)]

(* get_rows / traverse / rows *)
GetRows(t, y, tt) ==
    LET last == Min(tt, Height(t) - 1)
    IN [i \in 1..Max(0, last - y + 1) |-> [y |-> y + i - 1, cells |-> RowAt(t, y + i - 1)]]

(* get_columns / traverse_columns / columns *)
GetColumns(t, x, z) ==
    LET last == Min(z, Width(t) - 1)
    IN [i \in 1..Max(0, last - x + 1) |-> [x |-> x + i - 1, c |-> t.cols[x + i]]]

GetColumnCells(t, x) == [i \in 1..Height(t) |-> CellH(t, x, i - 1)]

Big == 1000000
Expected(t, g) ==
    CASE g.getter = "get_cell"   -> <<CellH(t, g.x, g.y)>>
      [] g.getter = "get_row"    -> <<[y |-> g.y, cells |-> RowAt(t, g.y)]>>
      [] g.getter = "get_column" -> <<[x |-> g.x, c |-> IF g.x < Width(t) THEN t.cols[g.x + 1] ELSE 0]>>
      [] g.getter = "get_cells"  -> GetCells(t, g.x, g.y, g.z, g.t)
      [] g.getter = "cells"      -> GetCells(t, 0, 0, Big, Big)
      [] g.getter = "get_rows"   -> GetRows(t, g.y, g.t)
      [] g.getter \in {"traverse", "rows"} -> GetRows(t, 0, Big)
      [] g.getter = "get_columns" -> GetColumns(t, g.x, g.z)
      [] g.getter \in {"traverse_columns", "columns"} -> GetColumns(t, 0, Big)
      [] g.getter = "get_column_cells" -> GetColumnCells(t, g.x)
      [] g.getter = "row_get_cell" -> <<CellH(t, g.x, g.y)>>
      [] g.getter \in {"row_traverse", "row_cells"} -> RowCells(t, g.y, 0, Big)
      [] g.getter = "setup" -> <<>>
      [] g.getter = "row_get_cells" -> RowCells(t, g.y, g.x, g.z)

Expanding == {"get_cells", "cells", "get_rows", "traverse", "rows", "get_columns",
              "traverse_columns", "columns", "row_traverse", "row_cells", "row_get_cells"}

Verdict(ev) ==
    (IF Has(ev, "exc") THEN {"exc"} ELSE {})
    \cup (IF ~Has(ev, "exc") /\ ev.got # Expected(ev.pre, ev.g) THEN {"addressed"} ELSE {})
    \cup (IF ~Has(ev, "exc") /\ (ev.g.getter \in Expanding \/ Has(ev.g, "expand")) /\ ev.reps # <<>> THEN {"expanded"} ELSE {})
    \cup (IF Has(ev, "aliased") /\ ev.aliased # <<>> THEN {"detached"} ELSE {})
    \cup (IF Has(ev, "cross") /\ ev.cross # <<>> THEN {"detached-cross"} ELSE {})
    \cup (IF ev.post # ev.pre THEN {"getter-changed-table"} ELSE {})

VARIABLES l, bad
vars == <<l, bad>>
Init == l = 1 /\ bad = {}
Next == /\ l <= Len(Events)
        /\ bad' = bad \cup {[l |-> l, clause |-> c] : c \in Verdict(Events[l])}
        /\ l' = l + 1
Spec == Init /\ [][Next]_vars
Done == l > Len(Events)
Report == Done => PrintT(ToJson([verdicts |-> bad, events |-> Len(Events)]))
=============================================================================
