------------------------------- MODULE Para -------------------------------
(***************************************************************************)
(* Paragraph text (C05) - the content of a text:p / text:h / text:span as   *)
(* a sequence of nodes:                                                     *)
(*    [k |-> "t", s |-> chars]   character data (a text or tail slot)        *)
(*    [k |-> "s", c |-> n]       <text:s text:c="n"/>                        *)
(*    [k |-> "tab"]  [k |-> "lb"]   <text:tab/>  <text:line-break/>          *)
(* Characters are code points.                                              *)
(*                                                                         *)
(* AppendPlain is the TRANSCRIPTION of Paragraph.append_plain_text          *)
(* (_expand_spaces -> _merge_spaces -> _replace_tabs_lb, the whole content   *)
(* rebuilt at every call).  Decode is the library's own reader (inner_text). *)
(* Collapse is the white-space processing of ODF 1.2 part 1 section 6.1.2,  *)
(* written independently over the stream of character data and elements     *)
(* (element-aware reading: text:s / text:tab / text:line-break are not       *)
(* white-space characters and end a run of spaces).                         *)
(* Properties:  Decode(nodes) = acc  and  Collapse(nodes) = acc  where acc   *)
(* is the concatenation of everything appended - for every string and every *)
(* way of splitting it into successive appends.                             *)
(***************************************************************************)
EXTENDS Naturals, Sequences, TLC

SP == 32
TAB == 9
LF == 10
CR == 13
IsWS(c) == c \in {SP, TAB, LF, CR}
Rep(c, n) == [i \in 1..n |-> c]

T(s) == [k |-> "t", s |-> s]
S(n) == [k |-> "s", c |-> n]
TabN == [k |-> "tab"]
LbN == [k |-> "lb"]

(* append an item to a node list, merging adjacent character data *)
Push(ns, item) ==
    IF item.k = "t" /\ item.s = <<>> THEN ns
    ELSE IF item.k = "t" /\ ns # <<>> /\ ns[Len(ns)].k = "t"
         THEN [ns EXCEPT ![Len(ns)] = T(@.s \o item.s)]
         ELSE Append(ns, item)
RECURSIVE PushAll(_, _)
PushAll(ns, items) == IF items = <<>> THEN ns ELSE PushAll(Push(ns, Head(items)), Tail(items))

-----------------------------------------------------------------------------
(* _expand_spaces: existing text:s become spaces again, strings merged, the *)
(* new text appended to the last string                                     *)
RECURSIVE Expand(_, _)
Expand(ns, acc) ==
    IF ns = <<>> THEN acc
    ELSE LET n == Head(ns)
         IN Expand(Tail(ns), Push(acc, IF n.k = "s" THEN T(Rep(SP, n.c)) ELSE n))
ExpandSpaces(ns, added) == Push(Expand(ns, <<>>), T(added))

(* re.split("( +)"): maximal runs of spaces / of non-spaces *)
RECURSIVE Chunks(_, _)
Chunks(s, acc) ==
    IF s = <<>> THEN acc
    ELSE IF acc # <<>> /\ ((acc[Len(acc)][1] = SP) = (Head(s) = SP))
         THEN Chunks(Tail(s), [acc EXCEPT ![Len(acc)] = Append(@, Head(s))])
         ELSE Chunks(Tail(s), Append(acc, <<Head(s)>>))
OnlySpaces(ch) == ch[1] = SP

(* _sub_merge_spaces on ONE string: first and last runs of spaces become a  *)
(* text:s of the full length, inner runs one space + text:s(n-1)            *)
SubMerge(s) ==
    LET ch == Chunks(s, <<>>)
        n == Len(ch)
        first == IF n = 0 THEN <<>>
                 ELSE IF OnlySpaces(ch[1]) THEN <<S(Len(ch[1]))>> ELSE <<T(ch[1])>>
        mid(i) == IF OnlySpaces(ch[i]) /\ Len(ch[i]) > 1 THEN <<T(<<SP>>), S(Len(ch[i]) - 1)>>
                  ELSE <<T(ch[i])>>
        RECURSIVE Mids(_)
        Mids(i) == IF i >= n THEN <<>> ELSE mid(i) \o Mids(i + 1)
        last == IF n <= 1 THEN <<>>
                ELSE IF OnlySpaces(ch[n]) THEN <<S(Len(ch[n]))>> ELSE <<T(ch[n])>>
    IN PushAll(<<>>, first \o Mids(2) \o last)

(* _sub_replace_tabs_lb on one string *)
RECURSIVE SplitTabs(_, _, _)
SplitTabs(s, cur, acc) ==
    IF s = <<>> THEN Push(acc, T(cur))
    ELSE IF Head(s) = TAB THEN SplitTabs(Tail(s), <<>>, Append(Push(acc, T(cur)), TabN))
    ELSE IF Head(s) = LF THEN SplitTabs(Tail(s), <<>>, Append(Push(acc, T(cur)), LbN))
    ELSE SplitTabs(Tail(s), Append(cur, Head(s)), acc)

RECURSIVE MergeAll(_), TabsAll(_)
MergeAll(items) == IF items = <<>> THEN <<>>
                   ELSE (IF Head(items).k = "t" THEN SubMerge(Head(items).s) ELSE <<Head(items)>>) \o MergeAll(Tail(items))
TabsAll(items) == IF items = <<>> THEN <<>>
                  ELSE (IF Head(items).k = "t" THEN SplitTabs(Head(items).s, <<>>, <<>>) ELSE <<Head(items)>>) \o TabsAll(Tail(items))

AppendPlain(ns, added) == PushAll(<<>>, TabsAll(MergeAll(ExpandSpaces(ns, added))))

-----------------------------------------------------------------------------
(* the library's reader: inner_text *)
RECURSIVE Decode(_)
Decode(ns) ==
    IF ns = <<>> THEN <<>>
    ELSE LET n == Head(ns)
             here == CASE n.k = "t" -> n.s
                       [] n.k = "s" -> Rep(SP, n.c)
                       [] n.k = "tab" -> <<TAB>>
                       [] n.k = "lb" -> <<LF>>
         IN here \o Decode(Tail(ns))

(* ODF 1.2 part 1, 6.1.2.  prev = TRUE when the item before in the stream is *)
(* a (collapsible) space or the paragraph start                             *)
RECURSIVE CollapseChars(_, _, _)
CollapseChars(s, prev, out) ==      \* returns <<out, prev>>
    IF s = <<>> THEN <<out, prev>>
    ELSE IF IsWS(Head(s))
         THEN CollapseChars(Tail(s), TRUE, IF prev THEN out ELSE Append(out, SP))
         ELSE CollapseChars(Tail(s), FALSE, Append(out, Head(s)))
(* spaces coming from text:s are protected (written 0 while processing) *)
RECURSIVE CollapseNodes(_, _, _)
CollapseNodes(ns, prev, out) ==
    IF ns = <<>> THEN out
    ELSE LET n == Head(ns)
         IN IF n.k = "t"
            THEN LET r == CollapseChars(n.s, prev, out) IN CollapseNodes(Tail(ns), r[2], r[1])
            ELSE LET e == CASE n.k = "s" -> Rep(0, n.c)
                            [] n.k = "tab" -> <<TAB>>
                            [] n.k = "lb" -> <<LF>>
                 IN CollapseNodes(Tail(ns), FALSE, out \o e)
Collapse(ns) ==
    LET raw == CollapseNodes(ns, TRUE, <<>>)
        cut == IF raw # <<>> /\ raw[Len(raw)] = SP THEN SubSeq(raw, 1, Len(raw) - 1) ELSE raw
    IN [i \in 1..Len(cut) |-> IF cut[i] = 0 THEN SP ELSE cut[i]]

WellFormedNodes(ns) ==
    \A i \in 1..Len(ns) :
        /\ ns[i].k = "t" => ns[i].s # <<>>
        /\ ns[i].k = "s" => ns[i].c >= 1
        /\ (i < Len(ns) /\ ns[i].k = "t") => ns[i + 1].k # "t"
=============================================================================
