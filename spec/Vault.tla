------------------------------- MODULE Vault -------------------------------
(***************************************************************************)
(* Implementation-shaped specification of ONE run-length-encoded sequence   *)
(* ("vault": the cells of a row, the rows of a table, the columns of a      *)
(* table) as odfdo keeps it (element_cached.py):                            *)
(*    runs  : sequence of [v, n]   the XML items with their repeat count     *)
(*    map   : sequence of the LAST position covered by each item             *)
(*            (_rmap / _tmap / _cmap)                                        *)
(*    cache : odf index -> the item cached for it (_indexes[...]), or absent *)
(* Actions transcribe set_item_in_vault / insert_item_in_vault /             *)
(* delete_item_in_vault / append and the read path (find_odf_idx + cache).   *)
(* TLC checks that this design REFINES the plain sequence operations of      *)
(* Grid.tla (SeqSet / SeqIns / SeqDel on the expansion), that the map is     *)
(* always the map of the runs, that no run has a repeat below 1, and that a  *)
(* read through map + cache answers what the expansion says.                 *)
(* ResetCache = FALSE drops the cache reset of the mutations (the class of   *)
(* defect seeded as C01-m2 / C02-m1): TLC then finds the stale read.         *)
(***************************************************************************)
EXTENDS Grid, Json

CONSTANTS Vals, MaxRep, MaxLen, ResetCache, Dump

VARIABLES runs, map, cache, op
vars == <<runs, map, cache, op>>

Run(v, n) == [v |-> v, n |-> n]
RECURSIVE Expand(_)
Expand(rs) == IF rs = <<>> THEN <<>> ELSE Rep(Head(rs).v, Head(rs).n) \o Expand(Tail(rs))
RECURSIVE MapOf(_, _)
MapOf(rs, before) == IF rs = <<>> THEN <<>> ELSE <<before + Head(rs).n>> \o MapOf(Tail(rs), before + Head(rs).n)
Len0(rs) == Len(Expand(rs))

(* find_odf_idx: first item whose last position is >= pos (bisect_left), 0 if none *)
FindIdx(m, pos) == LET hits == {i \in 1..Len(m) : m[i] >= pos} IN IF hits = {} THEN 0 ELSE CHOOSE i \in hits : \A j \in hits : i <= j

(* set_item_in_vault(position, item with repeat n): positions are 0-based, map holds 0-based last positions *)
SetItem(rs, pos, v, n) ==
    LET m == MapOf(rs, -1)
        i == FindIdx(m, pos)
        before == IF i > 1 THEN m[i - 1] ELSE -1
        curRep == m[i] - before
        repBefore == pos - (before + 1)
        repAfter == curRep - repBefore - n
        head == SubSeq(rs, 1, i - 1) \o (IF repBefore >= 1 THEN <<Run(rs[i].v, repBefore)>> ELSE <<>>) \o <<Run(v, n)>>
        RECURSIVE Eat(_, _)
        Eat(rest, k) ==      \* remove k positions from the front of the following runs
            IF k = 0 \/ rest = <<>> THEN rest
            ELSE IF Head(rest).n > k THEN <<Run(Head(rest).v, Head(rest).n - k)>> \o Tail(rest)
            ELSE Eat(Tail(rest), k - Head(rest).n)
        tail == SubSeq(rs, i + 1, Len(rs))
    IN IF repAfter >= 1 THEN head \o <<Run(rs[i].v, repAfter)>> \o tail
       ELSE head \o Eat(tail, -repAfter)

InsertItem(rs, pos, v, n) ==
    LET m == MapOf(rs, -1)
        i == FindIdx(m, pos)
        before == IF i > 1 THEN m[i - 1] ELSE -1
        curRep == m[i] - before
        repBefore == pos - (before + 1)
    IN IF repBefore >= 1
       THEN SubSeq(rs, 1, i - 1) \o <<Run(rs[i].v, repBefore), Run(v, n), Run(rs[i].v, curRep - repBefore)>> \o SubSeq(rs, i + 1, Len(rs))
       ELSE SubSeq(rs, 1, i - 1) \o <<Run(v, n)>> \o SubSeq(rs, i, Len(rs))

DeleteItem(rs, pos) ==
    LET m == MapOf(rs, -1)
        i == FindIdx(m, pos)
    IN IF rs[i].n >= 2 THEN [rs EXCEPT ![i] = Run(@.v, @.n - 1)]
       ELSE SubSeq(rs, 1, i - 1) \o SubSeq(rs, i + 1, Len(rs))

AppendItem(rs, v, n) == Append(rs, Run(v, n))

(* ---- the position map is NOT recomputed: it is edited in place ---------- *)
(* insert_map_once / _erase_map_once; i is the 1-based index of the item     *)
Before(m, i) == IF i > 1 THEN m[i - 1] ELSE -1
InsMap(m, i, rep) == SubSeq(m, 1, i - 1) \o <<Before(m, i) + rep>> \o [k \in 1..(Len(m) - i + 1) |-> m[i - 1 + k] + rep]
EraseMap(m, i) == LET rep == m[i] - Before(m, i)
                  IN SubSeq(m, 1, i - 1) \o [k \in 1..(Len(m) - i) |-> m[i + k] - rep]
RECURSIVE Shorten(_, _, _)
Shorten(m, i, overlap) ==        \* "shorten or remove the overlapped items"
    IF overlap <= 0 \/ i > Len(m) THEN m
    ELSE LET rep == m[i] - m[i - 1]
         IN IF rep > overlap THEN SubSeq(m, 1, i - 1) \o [k \in 1..(Len(m) - i + 1) |-> m[i - 1 + k] - overlap]
            ELSE Shorten(EraseMap(m, i), i, overlap - rep)
SetMap(m, pos, n) ==
    LET i == FindIdx(m, pos)
        repBefore == pos - (Before(m, i) + 1)
        repAfter == (m[i] - Before(m, i)) - repBefore - n
        m1 == EraseMap(m, i)
        m2 == IF repBefore >= 1 THEN InsMap(m1, i, repBefore) ELSE m1
        j == IF repBefore >= 1 THEN i + 1 ELSE i
        m3 == InsMap(m2, j, n)
    IN IF repAfter >= 1 THEN InsMap(m3, j + 1, repAfter)
       ELSE IF repAfter < 0 THEN Shorten(m3, j + 1, -repAfter) ELSE m3
InsertMap(m, pos, n) ==
    LET i == FindIdx(m, pos)
        repBefore == pos - (Before(m, i) + 1)
        repAfter == (m[i] - Before(m, i)) - repBefore
    IN IF repBefore >= 1 THEN InsMap(InsMap(InsMap(EraseMap(m, i), i, repBefore), i + 1, n), i + 2, repAfter)
       ELSE InsMap(m, i, n)
DeleteMap(m, pos) ==
    LET i == FindIdx(m, pos)
    IN IF m[i] - Before(m, i) - 1 >= 1 THEN SubSeq(m, 1, i - 1) \o [k \in 1..(Len(m) - i + 1) |-> m[i - 1 + k] - 1]
       ELSE SubSeq(m, 1, i - 1) \o [k \in 1..(Len(m) - i) |-> m[i + k] - 1]
AppendMap(m, n) == InsMap(m, Len(m) + 1, n)

(* a read of position pos through map and cache *)
ReadAt(rs, m, ch, pos) ==
    LET i == FindIdx(m, pos)
    IN IF i = 0 THEN E ELSE IF i \in DOMAIN ch THEN ch[i].v ELSE rs[i].v

Init == runs = <<>> /\ map = <<>> /\ cache = <<>> /\ op = [op |-> "init"]

NewCache(c) == IF ResetCache THEN <<>> ELSE c
Positions == 0..(Len0(runs) - 1)

Mutate ==
    \/ \E pos \in Positions : \E v \in Vals : \E n \in 1..MaxRep :
          /\ runs' = SetItem(runs, pos, v, n) /\ map' = SetMap(map, pos, n) /\ op' = [op |-> "set", pos |-> pos, v |-> v, n |-> n]
    \/ \E pos \in Positions : \E v \in Vals : \E n \in 1..MaxRep :
          /\ runs' = InsertItem(runs, pos, v, n) /\ map' = InsertMap(map, pos, n) /\ op' = [op |-> "insert", pos |-> pos, v |-> v, n |-> n]
    \/ \E pos \in Positions :
          /\ runs' = DeleteItem(runs, pos) /\ map' = DeleteMap(map, pos) /\ op' = [op |-> "delete", pos |-> pos]
    \/ \E v \in Vals : \E n \in 1..MaxRep :
          /\ runs' = AppendItem(runs, v, n) /\ map' = AppendMap(map, n) /\ op' = [op |-> "append", v |-> v, n |-> n]
(* a read caches the item it went through (as _get_cell2_base / _get_row2_base do) *)
Read ==
    \E pos \in Positions :
        LET i == FindIdx(map, pos)
        IN /\ i # 0
           /\ cache' = [j \in (DOMAIN cache) \cup {i} |-> IF j = i /\ i \notin DOMAIN cache THEN runs[i] ELSE cache[j]]
           /\ UNCHANGED <<runs, map>>
           /\ op' = [op |-> "read", pos |-> pos]

Next == \/ (Mutate /\ cache' = NewCache(cache) /\ Len0(runs') <= MaxLen)
        \/ Read
Spec == Init /\ [][Next]_vars
View == <<runs, map, cache>>
Emit == IF Dump /\ op'.op # "read" THEN PrintT(ToJson([pre |-> runs, op |-> op', post |-> runs', map |-> map'])) ELSE TRUE

-----------------------------------------------------------------------------
MapIsMapOfRuns == map = MapOf(runs, -1)
NoEmptyRun == \A i \in 1..Len(runs) : runs[i].n >= 1
(* what a caller reads through map + cache is what the expansion holds *)
ReadsAreTrue == \A pos \in Positions : ReadAt(runs, map, cache, pos) = Expand(runs)[pos + 1]
(* refinement of the plain sequence operations (Grid.tla) *)
Refines ==
    [][ LET old == Expand(runs)  new == Expand(runs')
        IN CASE op'.op = "set" -> new = SeqSet(old, op'.pos, op'.v, op'.n, E)
             [] op'.op = "insert" -> new = SeqIns(old, op'.pos, op'.v, op'.n, E)
             [] op'.op = "delete" -> new = SeqDel(old, op'.pos)
             [] op'.op = "append" -> new = old \o Rep(op'.v, op'.n)
             [] OTHER -> new = old ]_vars
=============================================================================
