------------------------------- MODULE Grid -------------------------------
(***************************************************************************)
(* Abstract specification of the odfdo Table / Row editing API.           *)
(*                                                                         *)
(* What the user is promised (properties C01, C07, C08, C17, C19): a table *)
(* IS a ragged list of rows, each row a list of cells, plus a list of      *)
(* declared columns.  No run-length encoding, no caches: those belong to    *)
(* Vault.tla / TableCache.tla, which describe how the code realises this.  *)
(*                                                                         *)
(* Every public operation is a pure operator  Op(t, args) -> t'  so that    *)
(* the same definitions serve (i) the bounded exhaustive model below,      *)
(* (ii) the transition dump replayed into the real code (binding A) and    *)
(* (iii) the validation of traces recorded from the real code (binding B,  *)
(* GridTrace.tla).                                                         *)
(*                                                                         *)
(* Positions are 0-based as in the API; sequences are 1-based.  A cell is  *)
(* a small integer: 0 = empty cell, S = empty-but-styled cell, anything    *)
(* else a value.  A column is a small integer (0 = unstyled).              *)
(***************************************************************************)
EXTENDS Naturals, Integers, Sequences, FiniteSets, TLC

E == 0          \* empty cell
S == 9          \* empty cell that carries a style (matters for rstrip only)
K == 10         \* a cell WITHOUT a value that is not empty: text with no value type (as other producers write), never stripped

Max(a, b) == IF a >= b THEN a ELSE b
Min(a, b) == IF a <= b THEN a ELSE b
Rep(c, n) == [i \in 1..n |-> c]
Take(s, n) == SubSeq(s, 1, Min(n, Len(s)))
Drop(s, n) == SubSeq(s, n + 1, Len(s))
PadTo(s, n, pad) == IF Len(s) >= n THEN s ELSE s \o Rep(pad, n - Len(s))

-----------------------------------------------------------------------------
(* Sequence editing, shared by cells in a row, rows in a table and columns. *)
(* `item' repeated n >= 1 times; positions beyond the end pad with `pad'.   *)

SeqSet(s, pos, item, n, pad) ==
    IF pos >= Len(s) THEN s \o Rep(pad, pos - Len(s)) \o Rep(item, n)
    ELSE Take(s, pos) \o Rep(item, n) \o Drop(s, pos + n)

SeqIns(s, pos, item, n, pad) ==
    IF pos >= Len(s) THEN s \o Rep(pad, pos - Len(s)) \o Rep(item, n)
    ELSE Take(s, pos) \o Rep(item, n) \o Drop(s, pos)

SeqDel(s, pos) ==
    IF pos >= Len(s) THEN s ELSE Take(s, pos) \o Drop(s, pos + 1)

(* negative positions count from the current end; only -len <= v < 0 is claimed *)
Norm(v, len) == IF v < 0 THEN v + len ELSE v

-----------------------------------------------------------------------------
(* Row operations (odfdo.Row used on its own)                               *)

RowSetCell(r, x, c, n)    == SeqSet(r, x, c, n, E)
RowInsertCell(r, x, c, n) == SeqIns(r, x, c, n, E)
RowAppendCell(r, c, n)    == r \o Rep(c, n)
RowDeleteCell(r, x)       == SeqDel(r, x)

(* set_values(values, start) / set_cells(cells, start): successive set_cell *)
RECURSIVE RowSetMany(_, _, _)
RowSetMany(r, x, vs) ==
    IF vs = <<>> THEN r
    ELSE RowSetMany(RowSetCell(r, x, Head(vs), 1), x + 1, Tail(vs))

IsEmptyCell(c, aggressive) == c = E \/ (aggressive /\ c = S)

RECURSIVE RowRStrip(_, _)
RowRStrip(r, aggressive) ==
    IF r # <<>> /\ IsEmptyCell(r[Len(r)], aggressive)
    THEN RowRStrip(Take(r, Len(r) - 1), aggressive) ELSE r

RowIsEmpty(r, aggressive) == \A i \in 1..Len(r) : IsEmptyCell(r[i], aggressive)

-----------------------------------------------------------------------------
(* Table = [rows : Seq(Seq(Cell)), cols : Seq(Col)]                         *)

Height(t) == Len(t.rows)
Width(t)  == Len(t.cols)
EmptyTable == [rows |-> <<>>, cols |-> <<>>]

(* _update_width: columns are appended (never inserted) when a row outgrows them *)
Widen(t, w) == [t EXCEPT !.cols = PadTo(@, w, 0)]
(* append_row on a table that has no column yet declares max(1, |row|) columns *)
InitCols(t, w) == IF t.cols = <<>> THEN [t EXCEPT !.cols = Rep(0, Max(1, w))] ELSE t

AppendRow(t, r, n) ==
    Widen(InitCols([t EXCEPT !.rows = @ \o Rep(r, n)], Len(r)), Len(r))

PadRows(t, y) == IF y > Height(t) THEN AppendRow(t, <<>>, y - Height(t)) ELSE t

SetRow(t, y, r, n) ==
    IF y >= Height(t) THEN AppendRow(PadRows(t, y), r, n)
    ELSE Widen([t EXCEPT !.rows = Take(@, y) \o Rep(r, n) \o Drop(@, y + n)], Len(r))

InsertRow(t, y, r, n) ==
    IF y >= Height(t) THEN AppendRow(PadRows(t, y), r, n)
    ELSE Widen([t EXCEPT !.rows = Take(@, y) \o Rep(r, n) \o Drop(@, y)], Len(r))

(* extend_rows(rows): the rows are appended as they are, then the columns   *)
(* grow to the widest row (no column is declared for rows without cells)   *)
RECURSIVE ExpandRows(_)
ExpandRows(rs) == IF rs = <<>> THEN <<>> ELSE Rep(Head(rs).r, Head(rs).n) \o ExpandRows(Tail(rs))
ExtendRows(t, rs) ==
    LET rows == t.rows \o ExpandRows(rs)
        ws == {Len(rows[i]) : i \in 1..Len(rows)}
        w == Max(Len(t.cols), IF ws = {} THEN 0 ELSE CHOOSE m \in ws : \A v \in ws : v <= m)
    IN [rows |-> rows, cols |-> PadTo(t.cols, w, 0)]

DeleteRow(t, y) == [t EXCEPT !.rows = SeqDel(@, y)]

RowAt(t, y) == IF y < Height(t) THEN t.rows[y + 1] ELSE <<>>

(* cell-addressed operations: the row operation on row y ONLY, then the     *)
(* table is widened when the row outgrew the declared columns               *)
SetCell(t, x, y, c, n)    == SetRow(t, y, RowSetCell(RowAt(t, y), x, c, n), 1)
InsertCell(t, x, y, c, n) == SetRow(t, y, RowInsertCell(RowAt(t, y), x, c, n), 1)
AppendCell(t, y, c, n)    == SetRow(t, y, RowAppendCell(RowAt(t, y), c, n), 1)
DeleteCell(t, x, y) ==
    IF y >= Height(t) THEN t
    ELSE [t EXCEPT !.rows[y + 1] = RowDeleteCell(@, x)]

(* set_values(matrix, (x, y)) / set_cells: line i goes to row y+i from column *)
(* x on; an empty line is skipped but still advances y                        *)
RECURSIVE SetValues(_, _, _, _)
SetValues(t, m, x, y) ==
    IF m = <<>> THEN t
    ELSE LET line == Head(m)
             t1 == IF line = <<>> THEN t
                   ELSE SetRow(t, y, RowSetMany(RowAt(t, y), x, line), 1)
         IN SetValues(t1, Tail(m), x, y + 1)

(* set_row_values / set_row_cells replace the whole row *)
SetRowValues(t, y, vs) == SetRow(t, y, vs, 1)

(* columns: declared columns carry style only; cells move in EVERY row alike *)
InsertColumn(t, x, cs, n) ==
    [rows |-> [y \in 1..Height(t) |->
                 IF Len(t.rows[y]) > x THEN SeqIns(t.rows[y], x, E, n, E) ELSE t.rows[y]],
     cols |-> SeqIns(t.cols, x, cs, n, 0)]

DeleteColumn(t, x) ==
    IF x >= Width(t) THEN t
    ELSE [rows |-> [y \in 1..Height(t) |-> SeqDel(t.rows[y], x)],
          cols |-> SeqDel(t.cols, x)]

AppendColumn(t, cs, n) == [t EXCEPT !.cols = @ \o Rep(cs, n)]
SetColumn(t, x, cs, n) == [t EXCEPT !.cols = SeqSet(@, x, cs, n, 0)]

(* set_column_cells / set_column_values: needs exactly Height cells *)
SetColumnCells(t, x, cs) ==
    LET rows2 == [y \in 1..Height(t) |-> RowSetCell(t.rows[y], x, cs[y], 1)]
    IN Widen([t EXCEPT !.rows = rows2], IF Height(t) = 0 THEN 0 ELSE x + 1)

-----------------------------------------------------------------------------
(* Whole-table transformations (C17)                                        *)

MaxRowWidth(t) ==
    LET ws == {Len(t.rows[y]) : y \in 1..Height(t)}
    IN IF ws = {} THEN 0 ELSE CHOOSE w \in ws : \A v \in ws : v <= w

Matrix(t) == [y \in 1..Height(t) |-> PadTo(t.rows[y], Width(t), E)]

(* transpose(): rows and columns swapped over the ragged rows padded to the *)
(* widest ROW (zip_longest); column styles are dropped (table is cleared)   *)
(* transpose(coord): the area (x, y)-(z, t), clamped to the table, is read row by row,                                    *)
(* cleared when it is not square, and its columns are written back as rows from (x, y) on - cells outside the two       *)
(* rectangles are not touched; asked for a table with x < width and y < height                                          *)
TransposeArea(t, x, y, z0, t0) ==
    LET z == Min(z0, Len(t.cols) - 1)
        tt == Min(t0, Height(t) - 1)
        w == z - x + 1
        h == tt - y + 1
        data == [i \in 1..h |-> LET r == RowAt(t, y + i - 1) IN SubSeq(r, x + 1, Min(z + 1, Len(r)))]
        (* a short row counts as completed with empty cells: the area always gives w lines of h cells *)
        td == [j \in 1..w |-> [i \in 1..h |-> IF j <= Len(data[i]) THEN data[i][j] ELSE E]]
        cleared == IF w # h THEN SetValues(t, [i \in 1..h |-> Rep(E, w)], x, y) ELSE t
    IN SetValues(cleared, td, x, y)

Transpose(t) ==
    LET w == MaxRowWidth(t)
        rows2 == [x \in 1..w |-> [y \in 1..Height(t) |->
                    IF x <= Len(t.rows[y]) THEN t.rows[y][x] ELSE E]]
    IN IF w = 0 THEN [rows |-> <<>>, cols |-> <<>>]
       ELSE [rows |-> rows2, cols |-> Rep(0, Max(1, Height(t)))]

RECURSIVE StripRowsBelow(_, _)
StripRowsBelow(rows, aggressive) ==
    IF rows # <<>> /\ RowIsEmpty(rows[Len(rows)], aggressive)
    THEN StripRowsBelow(Take(rows, Len(rows) - 1), aggressive) ELSE rows

(* rstrip: drop empty rows below, empty cells right of each row, and the    *)
(* columns beyond the widest remaining row                                  *)
RStrip(t, aggressive) ==
    LET r1 == StripRowsBelow(t.rows, aggressive)
        r2 == [y \in 1..Len(r1) |-> RowRStrip(r1[y], aggressive)]
        t2 == [rows |-> r2, cols |-> t.cols]
    IN [t2 EXCEPT !.cols = Take(@, MaxRowWidth(t2))]

-----------------------------------------------------------------------------
(* Reads: functions of the state                                            *)

Size(t) == <<Width(t), Height(t)>>
Value(t, x, y) ==
    IF y < Height(t) /\ x < Len(t.rows[y + 1]) THEN t.rows[y + 1][x + 1] ELSE E
RowValues(t, y) == RowAt(t, y)                          \* get_row(y): own width
RowValuesPadded(t, y) == PadTo(RowAt(t, y), Width(t), E) \* get_row_values(y)
ColumnValues(t, x) == [y \in 1..Height(t) |-> Value(t, x, y - 1)]
RowWidths(t) == [y \in 1..Height(t) |-> Len(t.rows[y])]

(* get_values(area (x,y,z,tt)): clipped to existing rows, each line holds    *)
(* the row's cells x..z and is completed to min(z+1, width) - x              *)
Area(t, x, y, z, tt) ==
    LET last == Min(tt, Height(t) - 1)
    IN [i \in 1..Max(0, last - y + 1) |->
          LET r == t.rows[y + i]
          IN PadTo(SubSeq(r, x + 1, Min(z + 1, Len(r))), Min(z + 1, Width(t)) - x, E)]

(* every read the harness takes after a step, as one record.  Reads that    *)
(* return VALUES do not see the style of an empty cell (V); reads that      *)
(* return cell objects do.                                                  *)
V(c) == IF c \in {S, K} THEN E ELSE c
VSeq(s) == [i \in 1..Len(s) |-> V(s[i])]
Reads(t) ==
    [size     |-> Size(t),
     matrix   |-> [y \in 1..Height(t) |-> VSeq(Matrix(t)[y])],
     widths   |-> RowWidths(t),
     vals     |-> [y \in 1..(Height(t) + 1) |-> [x \in 1..(Width(t) + 1) |-> V(Value(t, x - 1, y - 1))]],
     cells    |-> [y \in 1..(Height(t) + 1) |-> [x \in 1..(Width(t) + 1) |-> Value(t, x - 1, y - 1)]],
     rows     |-> [y \in 1..(Height(t) + 1) |-> RowValues(t, y - 1)],
     rowvals  |-> [y \in 1..Height(t) |-> VSeq(RowValuesPadded(t, y - 1))],
     colvals  |-> [x \in 1..(Width(t) + 1) |-> VSeq(ColumnValues(t, x - 1))],
     colcells |-> [x \in 1..(Width(t) + 1) |-> ColumnValues(t, x - 1)],
     columns  |-> t.cols]


(* optimize_width: the exact result depends on how trailing empty cells are  *)
(* run-length encoded ("minimize row width" counts the last run as one), so  *)
(* it is specified as a RELATION between the table before and after:         *)
(*  - rows below may be removed only if they are empty, and only trailing;   *)
(*  - a kept row is a prefix of the old row and what was cut off is empty    *)
(*    (style ignored);  columns are a prefix and still cover every row.      *)
IsPrefix(a, b) == Len(a) <= Len(b) /\ SubSeq(b, 1, Len(a)) = a
OptimizeWidthOK(t, u) ==
    /\ Height(u) <= Height(t)
    /\ \A y \in (Height(u) + 1)..Height(t) : RowIsEmpty(t.rows[y], FALSE)
    /\ (Height(u) < Height(t)) => (Height(u) > 0 /\ RowIsEmpty(u.rows[Height(u)], FALSE))
    /\ \A y \in 1..Height(u) :
          /\ IsPrefix(u.rows[y], t.rows[y])
          /\ \A i \in (Len(u.rows[y]) + 1)..Len(t.rows[y]) : IsEmptyCell(t.rows[y][i], TRUE)
    /\ IsPrefix(u.cols, t.cols)
    /\ \A y \in 1..Height(u) : Len(u.rows[y]) <= Width(u)

(* to_csv + import_from_csv: values only (styles are not exported), each line *)
(* loses its trailing empty cells, an empty cell and an empty string are the  *)
(* same thing                                                                 *)
CsvRows(t) == [y \in 1..Height(t) |-> RowRStrip(VSeq(PadTo(t.rows[y], Width(t), E)), TRUE)]

-----------------------------------------------------------------------------
(* Structural facts every reachable table satisfies (C07 at this level)     *)

NoRowWiderThanColumns(t) == \A y \in 1..Height(t) : Len(t.rows[y]) <= Width(t)
WellFormed(t) == NoRowWiderThanColumns(t)

-----------------------------------------------------------------------------
(* Dispatcher on an operation record (used by the bounded model, the dump   *)
(* and the trace validator).  Fields not used by an operation are ignored.  *)

Apply(t, o) ==
    CASE o.op = "set_cell"        -> SetCell(t, o.x, o.y, o.c, o.n)
      [] o.op = "set_value"       -> SetCell(t, o.x, o.y, o.c, 1)
      [] o.op = "insert_cell"     -> InsertCell(t, o.x, o.y, o.c, o.n)
      [] o.op = "append_cell"     -> AppendCell(t, o.y, o.c, o.n)
      [] o.op = "delete_cell"     -> DeleteCell(t, o.x, o.y)
      [] o.op = "set_row"         -> SetRow(t, o.y, o.r, o.n)
      [] o.op = "insert_row"      -> InsertRow(t, o.y, o.r, o.n)
      [] o.op = "append_row"      -> AppendRow(t, o.r, o.n)
      [] o.op = "delete_row"      -> DeleteRow(t, o.y)
      [] o.op = "set_row_values"  -> SetRowValues(t, o.y, o.r)
      [] o.op = "set_values"      -> SetValues(t, o.m, o.x, o.y)
      [] o.op = "insert_column"   -> InsertColumn(t, o.x, o.c, o.n)
      [] o.op = "append_column"   -> AppendColumn(t, o.c, o.n)
      [] o.op = "set_column"      -> SetColumn(t, o.x, o.c, o.n)
      [] o.op = "delete_column"   -> DeleteColumn(t, o.x)
      [] o.op = "set_column_cells" -> SetColumnCells(t, o.x, o.r)
      [] o.op = "transpose"       -> Transpose(t)
      [] o.op = "transpose_area"  -> TransposeArea(t, o.x, o.y, o.z, o.t)
      [] o.op = "rstrip"          -> RStrip(t, o.c = 1)
      [] o.op = "clear"           -> EmptyTable
      [] o.op = "extend_rows"     -> ExtendRows(t, o.rs)
      [] o.op = "read"            -> t

ApplyRow(r, o) ==
    CASE o.op = "row_set_cell"    -> RowSetCell(r, o.x, o.c, o.n)
      [] o.op = "row_insert_cell" -> RowInsertCell(r, o.x, o.c, o.n)
      [] o.op = "row_append_cell" -> RowAppendCell(r, o.c, o.n)
      [] o.op = "row_delete_cell" -> RowDeleteCell(r, o.x)
      [] o.op = "row_set_values"  -> RowSetMany(r, o.x, o.r)
      [] o.op = "row_rstrip"      -> RowRStrip(r, o.c = 1)
      [] o.op = "row_clear"       -> <<>>

=============================================================================
