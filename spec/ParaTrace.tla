----------------------------- MODULE ParaTrace -----------------------------
(***************************************************************************)
(* Trace validation for C05: each record is one real Paragraph / Header /   *)
(* Span built from a string (possibly appended in pieces): the pieces, the  *)
(* node sequence found in its XML by an independent lxml reader, and the    *)
(* texts the library reports (inner_text, and after serialise + re-parse).  *)
(* TLC evaluates Decode and the ODF white-space Collapse of Para.tla on the  *)
(* recorded nodes and compares everything with the concatenation of the     *)
(* pieces.  (Whether the node LAYOUT equals AppendPlain's is a diagnostic.)  *)
(***************************************************************************)
EXTENDS Para, Json, IOUtils, TLCExt

Records == JsonDeserialize(IOEnv.TRACE_FILE)

RECURSIVE Concat(_)
Concat(chs) == IF chs = <<>> THEN <<>> ELSE Head(chs) \o Concat(Tail(chs))
RECURSIVE Build(_, _)
Build(ns, chs) == IF chs = <<>> THEN ns ELSE Build(AppendPlain(ns, Head(chs)), Tail(chs))

Verdict(r) ==
    LET acc == Concat(r.chunks)
    IN  (IF r.text # acc THEN {"text"} ELSE {})
   \cup (IF r.reparsed # acc THEN {"reparsed-text"} ELSE {})
   \cup (IF Decode(r.nodes) # acc THEN {"decode-of-xml"} ELSE {})
   \cup (IF Collapse(r.nodes) # acc THEN {"not-normal-form"} ELSE {})
Layout(r) == IF Build(<<>>, r.chunks) # r.nodes THEN {"layout-differs-from-transcription"} ELSE {}

VARIABLES l, bad, diag
vars == <<l, bad, diag>>
Init == l = 1 /\ bad = {} /\ diag = 0
Next == /\ l <= Len(Records)
        /\ bad' = bad \cup {[l |-> l, clause |-> c] : c \in Verdict(Records[l])}
        /\ diag' = diag + (IF Layout(Records[l]) = {} THEN 0 ELSE 1)
        /\ l' = l + 1
Spec == Init /\ [][Next]_vars
Done == l > Len(Records)
Report == Done => PrintT(ToJson([verdicts |-> bad, records |-> Len(Records), layout_diffs |-> diag]))
=============================================================================
