------------------------------ MODULE Markup ------------------------------
(***************************************************************************)
(* Paragraph content with inline markup (C09, C16) as a sequence of TOKENS *)
(* in document order:                                                       *)
(*   [k |-> "t", s |-> chars]     character data (one text/tail SLOT)        *)
(*   [k |-> "o", tag |-> g]       start tag of a span ("span") or link ("a") *)
(*   [k |-> "c"]                  matching end tag                           *)
(*   [k |-> "e", tag |-> g, n |-> i]  empty element: "s" (n spaces), "tab",   *)
(*                                "lb", "bm" (a mark: bookmark, reference...) *)
(* The slots are exactly the nodes descendant::text() enumerates, in order.  *)
(*                                                                         *)
(* The operators transcribe the walks of the code: the _by_regex_offset     *)
(* decorator (set_span / set_link), Element._insert (marks by regex         *)
(* occurrence or by character position), strip_tags and delete.  The        *)
(* properties of C09 are stated on them and checked by TLC for every small  *)
(* layout, offset, length and literal pattern (MarkupMC.tla).               *)
(***************************************************************************)
EXTENDS Naturals, Integers, Sequences, TLC

SP == 32
TAB == 9
LF == 10
Rep(c, n) == [i \in 1..n |-> c]
Min(a, b) == IF a <= b THEN a ELSE b

T(s) == [k |-> "t", s |-> s]
O(g) == [k |-> "o", tag |-> g]
C == [k |-> "c"]
E(g, n) == [k |-> "e", tag |-> g, n |-> n]

(* readable text: character data + expanded white-space elements *)
RECURSIVE Decode(_)
Decode(ts) ==
    IF ts = <<>> THEN <<>>
    ELSE LET x == Head(ts)
             here == CASE x.k = "t" -> x.s
                       [] x.k = "e" /\ x.tag = "s" -> Rep(SP, x.n)
                       [] x.k = "e" /\ x.tag = "tab" -> <<TAB>>
                       [] x.k = "e" /\ x.tag = "lb" -> <<LF>>
                       [] OTHER -> <<>>
         IN here \o Decode(Tail(ts))

(* character data only: what descendant::text() concatenates (offsets of    *)
(* set_span / set_link / _insert count THESE characters)                    *)
RECURSIVE Chars(_)
Chars(ts) == IF ts = <<>> THEN <<>>
             ELSE (IF Head(ts).k = "t" THEN Head(ts).s ELSE <<>>) \o Chars(Tail(ts))

(* normal form of a token list: no empty and no adjacent text tokens *)
RECURSIVE Norm(_)
Norm(ts) ==
    IF ts = <<>> THEN <<>>
    ELSE IF Head(ts).k = "t" /\ Head(ts).s = <<>> THEN Norm(Tail(ts))
    ELSE IF Len(ts) >= 2 /\ Head(ts).k = "t" /\ ts[2].k = "t"
         THEN Norm(<<T(Head(ts).s \o ts[2].s)>> \o SubSeq(ts, 3, Len(ts)))
         ELSE <<Head(ts)>> \o Norm(Tail(ts))

Slots(ts) == {i \in 1..Len(ts) : ts[i].k = "t"}
RECURSIVE CharsBefore(_, _)
CharsBefore(ts, i) == IF i <= 1 THEN 0
                      ELSE CharsBefore(ts, i - 1) + (IF ts[i - 1].k = "t" THEN Len(ts[i - 1].s) ELSE 0)

Splice(ts, i, new) == SubSeq(ts, 1, i - 1) \o new \o SubSeq(ts, i + 1, Len(ts))

(* the text put inside a new span goes through append_plain_text (Para.tla): *)
(* leading / trailing spaces of the match become text:s                      *)
P == INSTANCE Para
RECURSIVE FromNodes(_)
FromNodes(ns) ==
    IF ns = <<>> THEN <<>>
    ELSE LET x == Head(ns)
             y == CASE x.k = "t" -> T(x.s)
                    [] x.k = "s" -> E("s", x.c)
                    [] x.k = "tab" -> E("tab", 0)
                    [] x.k = "lb" -> E("lb", 0)
         IN <<y>> \o FromNodes(Tail(ns))
Wrapped(g, m) == IF g = "span" THEN <<O(g)>> \o FromNodes(P!AppendPlain(<<>>, m)) \o <<C>>
                 ELSE <<O(g), T(m), C>>      \* Link(url, text=match): the text as it is

-----------------------------------------------------------------------------
(* set_span / set_link (offset, length): first slot with                    *)
(* counted + len > offset; the length is clipped to the slot's length       *)
WrapSlotOffset(ts, off) ==
    LET cand == {i \in Slots(ts) : CharsBefore(ts, i) + Len(ts[i].s) > off}
    IN IF cand = {} THEN 0 ELSE CHOOSE i \in cand : \A j \in cand : i <= j

WrapByOffset(ts, g, off, len) ==
    LET i == WrapSlotOffset(ts, off)
    IN IF i = 0 THEN ts
       ELSE LET s == ts[i].s
                start == off - CharsBefore(ts, i)
                n == IF len > 0 THEN Min(len, Len(s)) ELSE Len(s)
                stop == Min(start + n, Len(s))
            IN Splice(ts, i, <<T(SubSeq(s, 1, start))>> \o Wrapped(g, SubSeq(s, start + 1, stop))
                              \o <<T(SubSeq(s, stop + 1, Len(s)))>>)

(* leftmost non-overlapping occurrences of a literal pattern in one slot *)
RECURSIVE Occ(_, _, _)
Occ(s, p, from) ==
    IF from + Len(p) - 1 > Len(s) THEN <<>>
    ELSE IF SubSeq(s, from, from + Len(p) - 1) = p THEN <<from>> \o Occ(s, p, from + Len(p))
    ELSE Occ(s, p, from + 1)

(* regex form: EVERY occurrence in EVERY slot that existed at the call *)
RECURSIVE WrapOccs(_, _, _, _)
WrapOccs(s, g, p, occs) ==   \* tokens replacing one slot
    IF occs = <<>> THEN <<T(s)>>
    ELSE LET a == occs[Len(occs)]        \* last occurrence first, as the code does
         IN WrapOccs(SubSeq(s, 1, a - 1), g, p, SubSeq(occs, 1, Len(occs) - 1))
              \o Wrapped(g, p) \o <<T(SubSeq(s, a + Len(p), Len(s)))>>
RECURSIVE WrapByPattern(_, _, _)
WrapByPattern(ts, g, p) ==
    IF ts = <<>> THEN <<>>
    ELSE (IF Head(ts).k = "t" THEN WrapOccs(Head(ts).s, g, p, Occ(Head(ts).s, p, 1)) ELSE <<Head(ts)>>)
         \o WrapByPattern(Tail(ts), g, p)

-----------------------------------------------------------------------------
(* Element._insert: a mark before/after the (position)-th occurrence of a   *)
(* literal, occurrences counted over the slots in order; or at a character  *)
(* position (inserted in the first slot with count + len >= position)       *)
RECURSIVE OccSlot(_, _, _, _)
OccSlot(ts, p, i, need) ==    \* <<slot index, occurrence start>> or <<0, 0>>
    IF i > Len(ts) THEN <<0, 0>>
    ELSE IF ts[i].k # "t" THEN OccSlot(ts, p, i + 1, need)
    ELSE LET oc == Occ(ts[i].s, p, 1)
         IN IF Len(oc) >= need + 1 THEN <<i, oc[need + 1]>> ELSE OccSlot(ts, p, i + 1, need - Len(oc))

(* a negative occurrence number: the LAST occurrence in the LAST text node that has one (_search_negative_position) *)
LastOcc(ts, p) ==
    LET cand == {i \in Slots(ts) : Occ(ts[i].s, p, 1) # <<>>}
    IN IF cand = {} THEN <<0, 0>>
       ELSE LET i == CHOOSE i \in cand : \A j \in cand : j <= i
                oc == Occ(ts[i].s, p, 1)
            IN <<i, oc[Len(oc)]>>
OccAt(ts, p, nth) == IF nth < 0 THEN LastOcc(ts, p) ELSE OccSlot(ts, p, 1, nth)

MarkAtOccurrence(ts, p, nth, before) ==
    LET r == OccAt(ts, p, nth)
    IN IF r[1] = 0 THEN ts
       ELSE LET s == ts[r[1]].s
                pos == IF before THEN r[2] - 1 ELSE r[2] + Len(p) - 1
            IN Splice(ts, r[1], <<T(SubSeq(s, 1, pos)), E("bm", 0), T(SubSeq(s, pos + 1, Len(s)))>>)

(* content = regex: a start mark before and an end mark after the nth occurrence - both or nothing. *)
(* (the end mark first: it does not move the occurrence, which stays whole at the end of its text)  *)
MarkContent(ts, p, nth) ==
    IF OccAt(ts, p, nth)[1] = 0 THEN ts
    ELSE MarkAtOccurrence(MarkAtOccurrence(ts, p, nth, FALSE), p, nth, TRUE)

MarkSlotPosition(ts, position) ==
    LET cand == {i \in Slots(ts) : CharsBefore(ts, i) + Len(ts[i].s) >= position}
    IN IF cand = {} THEN 0 ELSE CHOOSE i \in cand : \A j \in cand : i <= j
MarkAtPosition(ts, position) ==
    LET i == MarkSlotPosition(ts, position)
    IN IF position < 0 THEN Append(ts, E("bm", 0))        \* a negative character position: appended at the very end
       ELSE IF i = 0 THEN ts
       ELSE LET s == ts[i].s
                pos == position - CharsBefore(ts, i)
            IN Splice(ts, i, <<T(SubSeq(s, 1, pos)), E("bm", 0), T(SubSeq(s, pos + 1, Len(s)))>>)

(* position = (a, b): a start mark at a and an end mark at b - both or nothing *)
MarkRange(ts, a, b) ==
    IF MarkSlotPosition(ts, a) = 0 \/ MarkSlotPosition(ts, b) = 0 THEN ts
    ELSE MarkAtPosition(MarkAtPosition(ts, b), a)

-----------------------------------------------------------------------------
(* removals: strip_tags(tag) drops the tags and keeps everything inside;    *)
(* delete(element) removes the element WITH its content, keeping the tail   *)
RECURSIVE StripTags(_, _, _)
StripTags(ts, g, stack) ==     \* stack: for each open element, whether it is stripped
    IF ts = <<>> THEN <<>>
    ELSE LET x == Head(ts)
         IN IF x.k = "o" THEN (IF x.tag = g THEN <<>> ELSE <<x>>) \o StripTags(Tail(ts), g, <<x.tag = g>> \o stack)
            ELSE IF x.k = "c" THEN (IF Head(stack) THEN <<>> ELSE <<x>>) \o StripTags(Tail(ts), g, Tail(stack))
            ELSE <<x>> \o StripTags(Tail(ts), g, stack)

RECURSIVE CloseOf(_, _, _)
CloseOf(ts, i, depth) ==   \* index of the end tag matching the start tag at i
    IF ts[i].k = "o" THEN CloseOf(ts, i + 1, depth + 1)
    ELSE IF ts[i].k = "c" THEN (IF depth = 1 THEN i ELSE CloseOf(ts, i + 1, depth - 1))
    ELSE CloseOf(ts, i + 1, depth)
DeleteAt(ts, i) ==
    IF ts[i].k = "e" THEN Splice(ts, i, <<>>)
    ELSE IF ts[i].k = "o" THEN SubSeq(ts, 1, i - 1) \o SubSeq(ts, CloseOf(ts, i, 0) + 1, Len(ts))
    ELSE ts

(* content = <element>: the whole content of an inline element (i > 0: its start tag is token i) or of the paragraph     *)
(* itself (i = 0) is marked: a start mark before everything inside, an end mark after everything inside (for a non-empty *)
(* element; Element.insert(start=True) moves the leading text behind the new mark)                                       *)
MarkElement(ts, i) ==
    IF i = 0 THEN <<E("bm", 0)>> \o ts \o <<E("bm", 0)>>
    ELSE IF ts[i].k # "o" THEN ts
    ELSE LET j == CloseOf(ts, i, 0)
         IN SubSeq(ts, 1, i) \o <<E("bm", 0)>> \o SubSeq(ts, i + 1, j - 1) \o <<E("bm", 0)>> \o SubSeq(ts, j, Len(ts))

(* after = <element> (insert_note, insert_annotation; no address at all = the paragraph itself): the new element becomes *)
(* the FIRST CHILD of that element - it stands after the element's leading text, if any                                  *)
MarkFirstChild(ts, i) ==
    LET k == i + 1
    IN IF i > 0 /\ ts[i].k # "o" THEN ts
       ELSE IF k <= Len(ts) /\ ts[k].k = "t" THEN SubSeq(ts, 1, k) \o <<E("bm", 0)>> \o SubSeq(ts, k + 1, Len(ts))
       ELSE SubSeq(ts, 1, k - 1) \o <<E("bm", 0)>> \o SubSeq(ts, k, Len(ts))

(* set_reference_mark_end(start, position): the end mark of an existing range (token `old`, 0 if the mark was a single     *)
(* point so far) is taken away and a new one is placed at the character position - or nothing changes at all when the    *)
(* position does not exist                                                                                               *)
MoveEnd(ts, old, pos) ==
    LET rest == IF old = 0 THEN ts ELSE DeleteAt(ts, old)
    IN IF pos >= 0 /\ MarkSlotPosition(rest, pos) = 0 THEN ts ELSE MarkAtPosition(rest, pos)

(* strip_tags called ON an inline element (span.remove_spans(), link.strip_tags(...)): when the element's own tag  *)
(* is stripped the call returns a NEW paragraph holding what was inside (nested tags of that kind stripped too)     *)
(* followed by the element's tail, and leaves the paragraph alone; otherwise it works in place, inside the element  *)
StripSelf(ts, i, g, withTail) ==
    IF ts[i].k # "o" THEN ts
    ELSE LET j == CloseOf(ts, i, 0)
             inner == StripTags(SubSeq(ts, i + 1, j - 1), g, <<>>)
         IN IF ts[i].tag = g
            THEN inner \o (IF withTail /\ j < Len(ts) /\ ts[j + 1].k = "t" THEN <<ts[j + 1]>> ELSE <<>>)
            ELSE SubSeq(ts, 1, i) \o inner \o SubSeq(ts, j, Len(ts))

(* white-space elements folded into the character data around them: the    *)
(* form in which model and implementation are compared (how a run of spaces *)
(* is split between characters and text:s is C05's business)                *)
RECURSIVE Unfold(_)
Unfold(ts) ==
    IF ts = <<>> THEN <<>>
    ELSE LET x == Head(ts)
         IN (IF x.k = "e" /\ x.tag \in {"s", "tab", "lb"} THEN <<T(Decode(<<x>>))>> ELSE <<x>>) \o Unfold(Tail(ts))
(* an empty mark sitting right at a tag boundary is at the same place of the *)
(* text on either side of the tag (the code's choice depends on whether an  *)
(* empty text node is left behind): marks are moved before the tags they    *)
(* touch, so that only their position in the text is compared; positions are *)
(* counted in CHARACTER DATA (as the API does), so a mark is equally placed  *)
(* before or after a white-space element it touches                          *)
RECURSIVE Canon(_, _, _)
Canon(ts, out, pend) ==
    IF ts = <<>> THEN out \o pend
    ELSE LET x == Head(ts)
         IN IF x.k \in {"o", "c"} \/ (x.k = "e" /\ x.tag \in {"s", "tab", "lb"})
            THEN Canon(Tail(ts), out, Append(pend, x))
            ELSE IF x.k = "e" /\ x.tag = "bm" THEN Canon(Tail(ts), Append(out, x), pend)
            ELSE Canon(Tail(ts), (out \o pend) \o <<x>>, <<>>)
Flat0(ts) == Norm(Unfold(ts))                          \* white-space elements folded only
Flat(ts) == Norm(Unfold(Canon(Norm(ts), <<>>, <<>>)))    \* + canonical mark placement
Vis(ts) == Decode(ts)

(* paragraphs as the API builds them: no raw space at either end of the      *)
(* paragraph, no two raw spaces in a row (also across tags), no raw tab or   *)
(* line feed: those are always text:s / text:tab / text:line-break           *)
NormalForm(ts) ==
    LET c == Chars(ts)     \* character data only, tags transparent
    IN /\ \A i \in 1..Len(c) : c[i] \notin {TAB, LF}
       /\ \A i \in 1..(Len(c) - 1) : ~(c[i] = SP /\ c[i + 1] = SP)

(* dispatcher used by the trace validator *)
ApplyOp(ts, o) ==
    CASE o.op = "wrap_offset"     -> WrapByOffset(ts, o.tag, o.off, o.len)
      [] o.op = "wrap_pattern"    -> WrapByPattern(ts, o.tag, o.p)
      [] o.op = "mark_occurrence" -> MarkAtOccurrence(ts, o.p, o.nth, o.before)
      [] o.op = "mark_position"   -> MarkAtPosition(ts, o.pos)
      [] o.op = "mark_range"      -> MarkRange(ts, o.a, o.b)
      [] o.op = "mark_content"    -> MarkContent(ts, o.p, o.nth)
      [] o.op = "mark_element"    -> MarkElement(ts, o.i)
      [] o.op = "move_end"        -> MoveEnd(ts, o.old, o.pos)
      [] o.op = "mark_first_child" -> MarkFirstChild(ts, o.i)
      [] o.op = "strip_tags"      -> StripTags(ts, o.tag, <<>>)
      [] o.op = "delete"          -> DeleteAt(ts, o.i)
      [] o.op = "strip_self"      -> StripSelf(ts, o.i, o.tag, TRUE)

(* text of the characters inside the element starting at i *)
Inside(ts, i) == IF ts[i].k = "o" THEN Decode(SubSeq(ts, i, CloseOf(ts, i, 0))) ELSE <<>>
=============================================================================
