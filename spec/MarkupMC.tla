----------------------------- MODULE MarkupMC -----------------------------
(***************************************************************************)
(* Bounded exhaustive model for C09: paragraphs reachable from small        *)
(* initial layouts by up to MaxOps successive insertions of mixed kinds     *)
(* (span / link by offset+length or by literal pattern, marks by occurrence *)
(* or by position), followed by removals.  TLC checks the clauses of C09    *)
(* on every transition and (Dump) prints the transitions for replay.        *)
(***************************************************************************)
EXTENDS Markup, Json

CONSTANTS Letters, MaxText, MaxOps, Dump

VARIABLES ts, op, n
vars == <<ts, op, n>>

Strings(k) == UNION {[1..i -> Letters \cup {SP}] : i \in 1..k}
Patterns == UNION {[1..i -> Letters \cup {SP}] : i \in 1..2}

Initials ==
    {<<T(s)>> : s \in {x \in Strings(MaxText) : x[1] # SP /\ x[Len(x)] # SP /\ NormalForm(<<T(x)>>)}}
    \cup {<<T(<<97>>), E("s", 2), T(<<98>>)>>, <<E("s", 1), T(<<97, 98>>), E("tab", 0)>>,
          <<T(<<97>>), O("span"), T(<<98, 32>>), E("lb", 0), T(<<97>>), C, T(<<32, 98>>)>>,
          <<O("a"), T(<<97, 97>>), C, E("bm", 0), T(<<97>>)>>}

Init == ts \in Initials /\ op = [op |-> "init"] /\ n = 0

TotalChars == Len(Chars(ts))

Wrap ==
    \E g \in {"span", "a"} :
       \/ \E off \in 0..(TotalChars + 1) : \E len \in 0..3 :
             /\ ts' = Norm(WrapByOffset(ts, g, off, len))
             /\ op' = [op |-> "wrap_offset", tag |-> g, off |-> off, len |-> len]
       \/ \E p \in Patterns :
             /\ ts' = Norm(WrapByPattern(ts, g, p))
             /\ op' = [op |-> "wrap_pattern", tag |-> g, p |-> p]
Mark ==
    \/ \E p \in Patterns : \E nth \in -1..2 : \E b \in BOOLEAN :
          /\ ts' = Norm(MarkAtOccurrence(ts, p, nth, b))
          /\ op' = [op |-> "mark_occurrence", p |-> p, nth |-> nth, before |-> b]
    \/ \E pos \in -1..(TotalChars + 1) :
          /\ ts' = Norm(MarkAtPosition(ts, pos))
          /\ op' = [op |-> "mark_position", pos |-> pos]
    \/ \E p \in Patterns : \E nth \in -1..1 :
          /\ ts' = Norm(MarkContent(ts, p, nth))
          /\ op' = [op |-> "mark_content", p |-> p, nth |-> nth]
    \/ \E i \in 0..Len(ts) :
          /\ ts # <<>>
          /\ (IF i = 0 THEN TRUE ELSE (ts[i].k = "o" /\ CloseOf(ts, i, 0) > i + 1))   \* a non-empty element, or the paragraph itself
          /\ ts' = Norm(MarkElement(ts, i))
          /\ op' = [op |-> "mark_element", i |-> i]
    \/ \E i \in 0..Len(ts) :
          /\ (IF i = 0 THEN TRUE ELSE ts[i].k = "o")
          /\ ts' = Norm(MarkFirstChild(ts, i))
          /\ op' = [op |-> "mark_first_child", i |-> i]
    \/ \E a \in 0..(TotalChars + 1) : \E b \in 0..(TotalChars + 1) :
          /\ a <= b
          /\ ts' = Norm(MarkRange(ts, a, b))
          /\ op' = [op |-> "mark_range", a |-> a, b |-> b]
Remove ==
    \/ \E g \in {"span", "a"} :
          /\ ts' = Norm(StripTags(ts, g, <<>>))
          /\ op' = [op |-> "strip_tags", tag |-> g]
    \/ \E i \in 1..Len(ts) : \E g \in {"span", "a"} :
          /\ ts[i].k = "o"
          /\ ts' = Norm(StripSelf(ts, i, g, TRUE))
          /\ op' = [op |-> "strip_self", i |-> i, tag |-> g, self |-> (ts[i].tag = g)]
    \/ \E i \in 1..Len(ts) :
          /\ ts[i].k \in {"o", "e"}
          /\ ts' = Norm(DeleteAt(ts, i))
          /\ op' = [op |-> "delete", i |-> i, kind |-> IF ts[i].k = "o" THEN ts[i].tag ELSE ts[i].tag]

Next == /\ n < MaxOps
        /\ n' = n + 1
        /\ (Wrap \/ Mark \/ Remove)
Spec == Init /\ [][Next]_vars
View == <<ts, n>>

Emit == IF Dump THEN PrintT(ToJson([pre |-> ts, op |-> op', post |-> ts'])) ELSE TRUE

-----------------------------------------------------------------------------
Inserting == {"wrap_offset", "wrap_pattern", "mark_occurrence", "mark_position", "mark_range", "mark_content", "mark_element", "mark_first_child", "move_end"}

(* C09: an insertion never alters the readable text *)
TextPreserved == [][ op'.op \in Inserting => Decode(ts') = Decode(ts) ]_vars

(* C09: by offset, the new element holds exactly the designated characters  *)
(* (up to the end of the text node they start in - the documented limit)    *)
WrapsDesignated ==
    [][ op'.op = "wrap_offset" =>
          LET i == WrapSlotOffset(ts, op'.off)
          IN IF i = 0 THEN ts' = ts
             ELSE LET all == Chars(ts)
                      slotEnd == CharsBefore(ts, i) + Len(ts[i].s)
                      want == IF op'.len > 0 THEN Min(op'.len, Len(ts[i].s)) ELSE Len(ts[i].s)
                      stop == Min(op'.off + want, slotEnd)
                  IN /\ Decode(ts') = Decode(ts)
                     /\ \E k \in 1..Len(ts') :
                           /\ ts'[k] = O(op'.tag)
                           /\ CharsBefore(ts', k) = op'.off
                           /\ LET e == CloseOf(ts', k, 0)
                              IN /\ Decode(SubSeq(ts', k, e)) = SubSeq(all, op'.off + 1, stop)
                                 \* taking the two tags away gives back the paragraph as it was
                                 /\ Flat0(SubSeq(ts', 1, k - 1) \o SubSeq(ts', k + 1, e - 1) \o SubSeq(ts', e + 1, Len(ts'))) = Flat0(ts)
      ]_vars

(* C09: an address that matches nothing leaves the paragraph untouched *)
NoMatchNoChange ==
    [][ /\ (op'.op = "wrap_pattern" /\ \A i \in Slots(ts) : Occ(ts[i].s, op'.p, 1) = <<>>) => ts' = ts
        /\ (op'.op = "mark_occurrence" /\ OccAt(ts, op'.p, op'.nth)[1] = 0) => ts' = ts
        /\ (op'.op = "wrap_offset" /\ op'.off >= TotalChars) => ts' = ts
        /\ (op'.op = "mark_position" /\ op'.pos > TotalChars) => ts' = ts
        /\ (op'.op = "mark_content" /\ OccAt(ts, op'.p, op'.nth)[1] = 0) => ts' = ts
        /\ (op'.op = "mark_range" /\ op'.b > TotalChars) => ts' = ts      \* no half of a range is ever inserted
      ]_vars

(* C09: removing markup keeps every character that is not inside the removed *)
(* element, tails included                                                   *)
RemovalKeepsOutside ==
    [][ /\ op'.op = "strip_tags" => Decode(ts') = Decode(ts)
        /\ op'.op = "strip_self" =>
              LET i == op'.i
                  j == CloseOf(ts, i, 0)
              IN IF op'.self
                 THEN Decode(ts') = Decode(SubSeq(ts, i + 1, j - 1)) \o (IF j < Len(ts) /\ ts[j + 1].k = "t" THEN ts[j + 1].s ELSE <<>>)
                 ELSE Decode(ts') = Decode(ts)
        /\ op'.op = "delete" =>
              LET i == op'.i
                  j == IF ts[i].k = "o" THEN CloseOf(ts, i, 0) ELSE i
              IN Decode(ts') = Decode(SubSeq(ts, 1, i - 1)) \o Decode(SubSeq(ts, j + 1, Len(ts)))
      ]_vars

(* tokens stay well nested *)
RECURSIVE Depth(_, _)
Depth(s, d) == IF s = <<>> THEN d
               ELSE IF d < 0 THEN d
               ELSE Depth(Tail(s), d + (IF Head(s).k = "o" THEN 1 ELSE IF Head(s).k = "c" THEN -1 ELSE 0))
WellNested == Depth(ts, 0) = 0
=============================================================================
