"""C19 - all ways of addressing cells agree; written addresses parse back.

Specs: Coord.tla (bijective base 26 vs short-lex successor; named-range
address writer/parser round trip over an alphabet of significant characters),
CoordTrace.tla (every read method x every coordinate form against the one
answer Grid.tla gives for the abstract area)."""
import random

from harness import coord_driver as cd
from harness.common import Run
from harness.tlc import make_cfg, run_tlc

NAME_ALPHA = {97, 32, 46, 39, 233, 36}  # a space . ' e-acute $


def coord_part(run, tier):
    from odfdo.utils import alpha_to_digit, digit_to_alpha

    c = {"MaxN": 20000, "NameAlphabet": NAME_ALPHA, "MaxNameLen": 3 if tier == "quick" else 4, "Dump": True}
    cfg = make_cfg(spec="Spec", constants=c, invariants=["RoundTrip", "ShortLex", "Lengths", "AddressRoundTrip", "EmitAlpha", "EmitAddr"])
    res = run_tlc("Coord", cfg, workers=1, timeout=900)
    run.add_tlc("Coord (bijection 0..20000, address grammar over names)", res, {"MaxN": 20000, "alphabet": "a .'é$", "MaxNameLen": c["MaxNameLen"]})
    if not res.ok:
        run.violation(f"model|{res.violated}", {"kind": "model", "tlc": res.stdout[-2000:]})
        return
    alphas = [p for p in res.printed if isinstance(p, dict) and "alpha" in p]
    addrs = [p for p in res.printed if isinstance(p, dict) and "name" in p]
    if not alphas or not addrs:
        run.machinery("Coord.tla printed nothing")
    for p in alphas:
        s = "".join(chr(64 + k) for k in p["alpha"])
        run.count()
        run.klass("alpha", len(s))
        try:
            got_s, got_n, got_low = digit_to_alpha(p["n"]), alpha_to_digit(s), alpha_to_digit(s.lower())
        except Exception as ex:  # noqa: BLE001
            run.violation("alpha|exc", {"kind": "exc", "n": p["n"], "got": repr(ex)})
            continue
        if got_s != s or got_n != p["n"] or got_low != p["n"]:
            run.violation("alpha|bijection", {"kind": "alpha", "n": p["n"], "spec": s, "digit_to_alpha": got_s, "alpha_to_digit": got_n})
    # random large numbers: inverse law only (beyond TLC's table)
    rng = random.Random(run.seed)
    for _ in range(2000):
        n = rng.randrange(20000, 10**9)
        run.count()
        if alpha_to_digit(digit_to_alpha(n)) != n:
            run.violation("alpha|inverse-large", {"kind": "alpha", "n": n})
    run.klass("alpha", "large")
    named_ranges(run, addrs)
    run.validated(len(alphas) + len(addrs))
    run.sample({"binding": "A:coord", "alpha": alphas[30], "address": addrs[len(addrs) // 2]})


def named_ranges(run, addrs):
    from odfdo import Document, Element, NamedRange, Table

    for p in addrs:
        name = "".join(map(chr, p["name"]))
        base = "".join(map(chr, p["base"]))
        rng_ = "".join(map(chr, p["range"]))
        run.count()
        run.klass("address", "quoted" if base.startswith("$'") else "bare", "dot" in name)
        try:
            Table(name)
        except ValueError:
            run.violation("address|name-rejected", {"kind": "name", "name": name})
            continue
        try:
            nr1 = NamedRange("nr_one", (2, 3), name)
            nr2 = NamedRange("nr_two", (0, 0, 1, 2), name)
            got_base = nr1.get_attribute("table:cell-range-address")
            got_rng = nr2.get_attribute("table:cell-range-address")
            back1 = Element.from_tag(nr1.serialize())
            back2 = Element.from_tag(nr2.serialize())
            obs = {"base": got_base, "range": got_rng, "t1": back1.table_name, "c1": list(back1.crange), "t2": back2.table_name, "c2": list(back2.crange)}
        except Exception as ex:  # noqa: BLE001
            run.violation("address|exc", {"kind": "exc", "name": name, "got": repr(ex)})
            continue
        if got_base != base or got_rng != rng_:
            # another quoting strategy is acceptable as long as it round-trips: diagnostic only
            run.notes["address_written_form_differs"] = run.notes.get("address_written_form_differs", 0) + 1
        # the ODF form written by the specification must be understood by the code's parser
        try:
            nr3 = Element.from_tag(
                '<table:named-range table:name="x" table:base-cell-address="%s" table:cell-range-address="%s"/>'
                % (_esc(base), _esc(rng_))
            )
            if nr3.table_name != name or list(nr3.crange) != [0, 0, 1, 2]:
                run.violation("address|parse-spec-address", {"kind": "address", "name": name, "address": rng_, "got": [nr3.table_name, list(nr3.crange)]})
        except Exception as ex:  # noqa: BLE001
            run.violation("address|parse-spec-address|exc", {"kind": "exc", "name": name, "address": rng_, "got": repr(ex)})
        if obs["t1"] != name or obs["t2"] != name or obs["c1"] != [2, 3, 2, 3] or obs["c2"] != [0, 0, 1, 2]:
            run.violation("address|parse-back", {"kind": "address", "name": name, "got": obs})
    # renaming a table updates the named ranges that point to it (and only them)
    for i, p in enumerate(addrs[:: max(1, len(addrs) // 150)]):
        new = "".join(map(chr, p["name"]))
        rng_pad = random.Random(new)
        doc = Document("spreadsheet")
        body = doc.body
        body.clear()
        # other tables whose names are contained in the renamed table's name (and the reverse)
        t1, t2 = Table("first one"), Table("one")
        body.append(t1)
        body.append(t2)
        body.append(Table("first"))
        body.append(Table("the first one here"))
        t1 = body.get_table(0)
        t1.set_named_range("ra", (0, 0, 1, 1))
        t1.set_named_range("rb", "C3")
        body.get_table(1).set_named_range("rc", "A1")
        body.get_table(2).set_named_range("rd", "B2")
        body.get_table(3).set_named_range("re", "A2")
        own = sorted(n.name for n in t1.get_named_ranges(table_name="first one"))
        if own != ["ra", "rb"]:
            run.violation("named-ranges|lookup-by-table-name", {"kind": "lookup", "got": own, "want": ["ra", "rb"]})
        run.count()
        # the caller may give the new name with blanks around it: the setter strips them (C07), and the table and its ranges
        # must agree on the stripped name
        padded = rng_pad.choice(["", "", " ", "  "]) + new + rng_pad.choice(["", "", " ", "\t"])
        try:
            t1.name = padded
            doc2 = Element.from_tag(body.serialize())
            got = {n.name: (n.table_name, list(n.crange)) for n in doc2.get_named_ranges()}
            stored = doc2.get_tables()[0].name
            if stored != new.strip():
                run.violation("rename|table-name-not-stripped", {"kind": "rename", "given": padded, "stored": stored})
                continue
            vals = doc.body.get_named_range("ra").get_values()      # (in the live document: a named range reads its table through it)
            if not isinstance(vals, list):
                run.violation("rename|range-values", {"kind": "rename", "given": padded, "got": repr(vals)[:100]})
        except Exception as ex:  # noqa: BLE001
            run.violation("rename|exc", {"kind": "exc", "name": new, "got": repr(ex)})
            continue
        new = new.strip()
        want = {"ra": (new, [0, 0, 1, 1]), "rb": (new, [2, 2, 2, 2]), "rc": ("one", [0, 0, 0, 0]), "rd": ("first", [1, 1, 1, 1]),
                "re": ("the first one here", [0, 1, 0, 1])}
        run.klass("rename", "quoted" if any(ch in new for ch in " .'$") else "bare")
        if got != want:
            run.violation("rename|ranges-not-updated", {"kind": "rename", "name": new, "got": got, "want": want})


def _esc(s: str) -> str:
    return s.replace("&", "&amp;").replace('"', "&quot;").replace("<", "&lt;")


def forms_part(run, tier):
    evs = cd.generate(400 if tier == "quick" else 1500, run.seed)
    evs, malformed = cd.split_malformed(evs)
    for ev in malformed:
        run.violation(f"answer:malformed|{ev['method']}|{ev['form']}", {"kind": "shape", "event": ev})
    res, rep = cd.validate(evs, timeout=2700)
    run.add_tlc("CoordTrace validation (methods x coordinate forms)", res)
    if rep is None:
        run.machinery("CoordTrace produced no report:\n" + res.stdout[-2000:])
    run.count(len(evs))
    run.validated(len(evs))
    for ev in evs:
        run.klass("form", ev["method"], ev["form"], "edge" if ev["a"]["z"] >= len(ev["pre"]["cols"]) or ev["a"]["t"] >= len(ev["pre"]["rows"]) else "in")
    run.sample({"binding": "B:coord-event", **{k: evs[7][k] for k in ("method", "form", "a", "got")}})
    for v in rep["verdicts"]:
        ev = evs[v["l"] - 1]
        run.violation(f"{v['clause']}|{ev['method']}|{ev['form']}", {"kind": v["clause"], "event": ev})


def main(tier: str) -> int:
    run = Run("C19", tier)
    run.coverage["rule"] = (
        "TLC table of (number, letters) for 0..20000 replayed both ways into digit_to_alpha/alpha_to_digit plus 2000 random numbers up to 1e9 "
        "(inverse law); every accepted table name up to the length bound over {a, space, dot, apostrophe, e-acute, dollar}: named range written, "
        "compared with the address the spec writes, serialised and parsed back; table rename; 9 read methods x up to 5 coordinate forms on random "
        "tables, each answer compared by TLC with the answer for the abstract area. Distinct = (kind, method, form, in/edge)."
    )
    run.assumptions += ["negative positions are claimed for -len <= v < 0 only", "get_values((a,b)) with a 2-tuple means a row range in table context"]
    coord_part(run, tier)
    forms_part(run, tier)
    return run.finish()
