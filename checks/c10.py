"""C10 - a clone is equal at birth and independent for life.

Specs: PackageMC.tla (CloneEqualAtBirth on the lazy-parts design),
PackageTrace.tla (document clones inside package histories: equal at birth,
the untouched twin keeps its state, also when saved), GridTrace.tla (two-object
model for tables: clone in the middle of a history with warmed caches, then
both objects edited in a random interleaving), TwinTrace.tla (elements, cells,
rows, columns, frames, lists, XML parts, containers from BytesIO / zip path
with unread parts / folder)."""
from harness import table_driver as td
from harness import twin_driver as tw
from harness.common import Run
from harness.pkg_engine import run_package_property
from harness.table_engine import edge_class, signature


def main(tier: str) -> int:
    run = Run("C10", tier)
    run.coverage["rule"] = (
        "clone taken at a random point of a history, then original and clone mutated in a random interleaving; after every step both are "
        "observed (independent XML expansion for tables, serialisation + cached answers for other objects, get_part views and an actual "
        "save of the untouched twin for documents) and TLC checks the two-object model: equal at birth, cloning leaves the original alone, "
        "acting on one never changes the other. Distinct = (object kind, op, side / position class)."
    )
    run.assumptions += [
        "the Python heap is not modelled: sharing is detected through its observable effect on the twin",
        "for a path-backed container get_parts() lists the archive on disk; containers are therefore mutated on existing part names only",
    ]
    # documents / containers in package histories
    run_package_property(run, tier, prefixes=("C10:",), ntraces=100 if tier == "quick" else 2500)
    # lazily loaded parts: path-backed zip, some parts read, many files added, then cloned
    run_package_property(run, tier, prefixes=("C10:", "C04:"), ntraces=48 if tier == "quick" else 1200, sources="lazy-clone", mc=False)
    # tables: two-object Grid model
    n = 300 if tier == "quick" else 6000
    traces = td.generate(n, run.seed, 12, clones=True)
    res, rep = td.validate(traces)
    run.add_tlc("GridTrace two-object validation (table clones)", res)
    if rep is None:
        run.machinery("GridTrace produced no report")
    run.count(sum(len(t) for t in traces))
    run.validated(len(traces))
    for tr in traces:
        for ev in tr:
            run.klass("table", ev["op"]["op"], ev.get("side", "-"))
    for v in rep["verdicts"]:
        tr = traces[v["tid"] - 1]
        ev = tr[v["l"] - 1]
        run.violation(f"table|{v['clause']}:{v['what']}|{ev['op']['op']}|side={ev.get('side', 'a')}",
                      {"kind": v["clause"], "history": [dict(e["op"], side=e.get("side", "a")) for e in tr[: v["l"]]], "start": tr[0].get("pre"), "event": ev})
    # everything else
    n = 330 if tier == "quick" else 6600
    traces = tw.generate(n, run.seed)
    res, rep = tw.validate(traces)
    run.add_tlc("TwinTrace validation (elements, cells, rows, parts, containers)", res)
    if rep is None:
        run.machinery("TwinTrace produced no report")
    run.count(sum(len(t) for t in traces))
    run.validated(len(traces))
    for tr in traces:
        for ev in tr:
            run.klass("twin", ev["obj"], ev["op"])
            if ev["op"] == "exc":
                run.violation(f"twin|exc|{ev['obj']}", {"kind": "exc", "history": tr})
    run.sample({"binding": "B:twin-trace", "events": traces[3]})
    for v in rep["verdicts"]:
        tr = traces[v["tid"] - 1]
        ev = tr[v["l"] - 1]
        if v["clause"] == "vacuous-mutation":
            run.notes["vacuous_mutations"] = run.notes.get("vacuous_mutations", 0) + 1
            continue
        run.violation(f"twin|{v['clause']}|{ev['obj']}|{ev['op']}", {"kind": v["clause"], "history": tr[: v["l"]]})
    return run.finish()
