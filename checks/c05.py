"""C05 - paragraph text round-trips exactly and is in ODF white-space normal form.

Specs: Para.tla (transcription of append_plain_text, the library's reader
Decode, the independent ODF 6.1.2 Collapse), ParaMC.tla (all strings up to a
bound x all splits into appends: RoundTrip, NormalForm), ParaTrace.tla
(records of real Paragraph/Header/Span objects)."""
import random

from harness import odftext
from harness import para_lib as pl
from harness.common import Run
from harness.tlc import make_cfg, run_tlc

ALPHA = {97, 98, 32, 9, 10}
CLASSES = ["a", "b", "Z", " ", " ", " ", "\t", "\n", "<", "&", ">", '"', "'", "é", " ", "中", "\U0001F600", "]]>"]


def main(tier: str) -> int:
    run = Run("C05", tier)
    run.coverage["rule"] = (
        "A: every transition (node list, appended chunk) of the bounded ParaMC model replayed on a real Paragraph, Header and Span built "
        "from the pre-state XML; B: random strings (letters, XML-special, non-ASCII, astral, spaces, tabs, line feeds; length <= 40) split "
        "into 1..4 appends. Verdict observables: inner_text, text after serialise+re-parse, library reader and independent ODF 6.1.2 "
        "collapse of the XML (evaluated by TLC on the recorded nodes) - all equal to the concatenation. Distinct = (kind, white-space "
        "pattern class of the string, number of pieces)."
    )
    run.assumptions += [
        "white-space oracle: element-aware reading of ODF 1.2 part 1 section 6.1.2 (text:s/tab/line-break end a run of spaces); the "
        "stricter cross-element reading is reported as a diagnostic count only (DESIGN C05)",
    ]
    mc = {"Alphabet": {97, 32, 9, 10}, "MaxLen": 6, "MaxChunk": 3} if tier == "quick" else {"Alphabet": ALPHA, "MaxLen": 7, "MaxChunk": 3}
    cfg = make_cfg(spec="Spec", constants={**mc, "Dump": False}, invariants=["RoundTrip", "NormalForm", "Shape"], view="View")
    res = run_tlc("ParaMC", cfg, workers=16, timeout=2400)
    run.add_tlc("ParaMC exhaustive (all strings x all splits)", res, {k: sorted(v) if isinstance(v, set) else v for k, v in mc.items()})
    if not res.ok:
        run.violation(f"model|{res.violated}", {"kind": "model", "tlc": res.stdout[-2500:]})
    dc = {"Alphabet": {97, 32, 9, 10}, "MaxLen": 4, "MaxChunk": 2} if tier == "quick" else {"Alphabet": {97, 32, 9, 10}, "MaxLen": 6, "MaxChunk": 3}
    cfg = make_cfg(spec="Spec", constants={**dc, "Dump": True}, action_constraints=["Emit"], view="View")
    res = run_tlc("ParaMC", cfg, workers=1, timeout=2400)
    run.add_tlc("ParaMC transition dump", res, {k: sorted(v) if isinstance(v, set) else v for k, v in dc.items()})
    edges = [p for p in res.printed if isinstance(p, dict) and "chunk" in p]
    if not edges:
        run.machinery("ParaMC dump is empty")
    from odfdo import Element

    layout_diffs = 0
    strict_diag = 0
    for e in edges:
        acc = pl.chars(e["acc"])
        for kind in ("Paragraph", "Header", "Span"):
            run.count()
            run.klass("A", kind, ws_class(acc), "edge")
            try:
                obj = pl.build(kind, e["pre"])
                obj.append_plain_text(pl.chars(e["chunk"]))
                root = pl.lxml_root(obj)
                obs = {
                    "inner_text": obj.inner_text,
                    "reparsed": Element.from_tag(obj.serialize()).inner_text,
                    "collapse": odftext.collapse(root),
                    "plain": odftext.plain(root),
                }
            except Exception as ex:  # noqa: BLE001
                run.violation(f"exc|{kind}", {"kind": "exc", "edge": e, "got": repr(ex)})
                continue
            for k, v in obs.items():
                if v != acc:
                    run.violation(f"{k}|{kind}|{ws_class(acc)}", {"kind": k, "edge": e, "want": acc, "got": v, "xml": obj.serialize()})
            if pl.project(obj) != e["post"]:
                layout_diffs += 1
    run.validated(len(edges) * 3)
    run.notes["edges_replayed"] = len(edges) * 3
    run.sample({"binding": "A:edge", **edges[len(edges) // 3]})
    # binding B
    rng = random.Random(run.seed)
    recs = []
    n = 3000 if tier == "quick" else 60000
    for _ in range(n):
        ln = rng.choice([0, 1, 2, 3, 5, 8, 13, 21, 40])
        s = "".join(rng.choice(CLASSES) for _ in range(rng.randint(0, ln)))
        if rng.random() < 0.15:
            # one long run of spaces (counts of two and three digits), at the start, inside or at the end
            run_ = " " * rng.choice([9, 10, 11, 12, 15, 19, 20, 21, 99, 100, 101, 120])
            at = rng.choice([0, len(s), rng.randint(0, len(s))])
            s = s[:at] + run_ + s[at:]
        k = rng.randint(1, 4)
        cuts = sorted(rng.randint(0, len(s)) for _ in range(k - 1))
        chunks = [s[a:b] for a, b in zip([0] + cuts, cuts + [len(s)])]
        kind = rng.choice(["Paragraph", "Header", "Span"])
        try:
            recs.append(pl.record(kind, chunks))
        except Exception as ex:  # noqa: BLE001
            run.violation(f"exc|{kind}", {"kind": "exc", "chunks": chunks, "got": repr(ex)})
            continue
        run.klass("B", kind, ws_class(s), min(k, 3))
    res, rep = pl.validate(recs)
    run.add_tlc("ParaTrace validation of recorded objects", res)
    if rep is None:
        run.machinery("ParaTrace produced no report:\n" + res.stdout[-2000:])
    run.count(len(recs))
    run.validated(len(recs))
    run.sample({"binding": "B:record", **{k: recs[5][k] for k in ("kind", "chunks", "nodes")}})
    run.notes["layout_differs_from_transcription"] = layout_diffs + rep.get("layout_diffs", 0)
    for v in rep["verdicts"]:
        r = recs[v["l"] - 1]
        s = "".join(pl.chars(c) for c in r["chunks"])
        run.violation(f"{v['clause']}|{r['kind']}|{ws_class(s)}", {"kind": v["clause"], "chunks": [pl.chars(c) for c in r["chunks"]], "nodes": r["nodes"], "text": pl.chars(r["text"])})
    del strict_diag
    # the repository's own tests as traces: every append_plain_text they make (constructors included) adds exactly its text
    from harness import markup_lib as ml

    ml.run_harvest_part(run, ("append",), "append_plain_text")
    return run.finish()


def ws_class(s: str) -> str:
    """where the white space sits: leading / trailing / inner runs / next to tab or line break"""
    f = []
    if s[:1] == " ":
        f.append("lead")
    if s[-1:] == " ":
        f.append("trail")
    if "  " in s.strip(" "):
        f.append("run")
    if any(x in s for x in (" \t", "\t ", " \n", "\n ")):
        f.append("sp+el")
    if "\t" in s or "\n" in s:
        f.append("el")
    if not s.strip():
        f.append("blank")
    return "+".join(f) or "plain"
