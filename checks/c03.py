"""C03 - saving and reopening a document loses nothing, in every packaging.

Specs: PackageMC.tla (lazy parts + parsed-part cache design refines the
caller's belief; SaveFaithful) and PackageTrace.tla (recorded histories of
real documents: templates and every sample, opened from path / BytesIO /
folder, edited through DOM handles, set_part, add_file, del_part, saved as
zip / folder / flat XML to path / BytesIO, reopened, cloned)."""
from harness.common import Run
from harness.pkg_engine import run_package_property


def main(tier: str) -> int:
    run = Run("C03", tier)
    run.coverage["rule"] = (
        "seeded random histories (open|new; edits of content/styles/meta through old or fresh DOM handles; set_part of existing XML/binary "
        "parts; add_file; del_part; save zip|folder|xml x pretty x path|BytesIO; reopen; clone) over the 4 templates and all sample documents; "
        "after each save the target is read with zipfile/os.walk + lxml C14N only and TLC compares it with the model's belief (last write "
        "wins). Distinct = (op, packaging, pretty, part, previous op, source kind)."
    )
    run.assumptions += [
        "XML parts compared as canonical XML (C14N) with the meta:generator stamp blanked; other parts byte for byte",
        "directory entries of the zip are exempt (LibreOffice writes unlisted empty directories)",
        "flat XML: well-formedness and presence of every part's root children only (cannot be re-opened)",
        "set_part is exercised on existing parts only (adding unlisted parts through this low-level call is outside the property)",
    ]
    # a pretty / folder save that changes what a reader gets is content lost on the way to disk: C03 as much as C11
    run_package_property(run, tier, prefixes=("C03:", "C11:pretty-or-packaging-changed-content"))
    return run.finish()
