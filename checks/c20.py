"""C20 - a filled table of contents lists exactly the headings, in order, numbered right.

Spec: Toc.tla (counter machine of TOC._header_numbering / odfdo-headers vs an
independent declarative numbering; listing rule).  TLC enumerates every level
sequence up to a bound and prints the expected entries for each outline
level; each one is replayed on a real document (binding A): headings with
white-space elements and spans, TOC placed first / middle / last, fill()
once and twice, heading edits between fills; the odfdo-headers tool must
report the same outline."""
import io
import random
import subprocess
import tempfile
from pathlib import Path

from harness import odftext
from harness import tablelib as tl
from harness.common import SRC, Run
from harness.tlc import make_cfg, run_tlc

TEXTS = ["Title", "Two  spaces", "Tab\there", "  lead and trail  ", "Été 中文", "a < b & c", "Line\nbreak", "x"]
TX = odftext.TX


def heading_text(rng, i):
    if rng.random() < 0.08:
        return ""     # a heading without any text is a heading (it is numbered and listed)
    return f"{rng.choice(TEXTS)} {i}"


def make_doc(rng, levels, where):
    from odfdo import TOC, Document, Header, Paragraph

    doc = Document("text")
    body = doc.body
    body.clear()
    toc = TOC(outline_level=0)
    heads = []
    pos = {"first": 0, "middle": len(levels) // 2, "last": len(levels)}[where]
    for i, lv in enumerate(levels):
        if i == pos:
            body.append(toc)
        if rng.random() < 0.25:
            # a heading as a loaded document holds it, with blanks of Unicode that are ordinary characters for XML and ODF
            from odfdo import Element

            txt = rng.choice(["No\u00a0break", "em\u2003 space", "thin\u202fgap \u3000wide", "plain"]) + f" {i}"
            h = Element.from_tag(f'<text:h text:outline-level="{lv}">{txt}</text:h>')
        else:
            h = Header(lv, heading_text(rng, i))
        if rng.random() < 0.4:
            try:
                h.set_span("T1", offset=rng.randint(0, 3), length=rng.randint(1, 4))
            except Exception:  # noqa: BLE001, S110
                pass
        # a heading is a heading wherever it sits: directly in the body, in a section, a list item or a table cell
        holder = rng.choice(["body", "body", "section", "list", "cell"])
        if holder == "body":
            body.append(h)
        elif holder == "section":
            from odfdo import Section

            sec = Section(name=f"sec{i}")
            sec.append(Paragraph("in section"))
            sec.append(h)
            body.append(sec)
        elif holder == "list":
            from odfdo import List, ListItem

            item = ListItem()
            item.append(h)
            lst = List()
            lst.append(item)
            body.append(lst)
        else:
            from odfdo import Table

            t = Table(f"T{i}", width=1, height=1)
            cell = t.get_cell((0, 0))
            cell.append(h)
            t.set_cell((0, 0), cell)
            body.append(t)
        heads.append(h)
        if rng.random() < 0.5:
            body.append(Paragraph(f"text under {i}"))
    if pos >= len(levels):
        body.append(toc)
    return doc, body.get_element("descendant::text:table-of-content"), heads


def observe(doc) -> dict:
    """Independent reading of the TOC and of the headings from the serialized body."""
    root = tl.parse_wrapped(doc.body.serialize())[0]
    heads = []
    for h in root.iter(TX + "h"):
        if any(a.tag == TX + "table-of-content" for a in h.iterancestors()):
            continue
        heads.append({"level": int(h.get(TX + "outline-level", "1")), "text": odftext.collapse(h), "plain": odftext.plain(h)})
    entries = []
    title = None
    for ib in root.iter(TX + "index-body"):
        for ch in ib:
            if ch.tag == TX + "index-title":
                title = " ".join(odftext.collapse(p) for p in ch.iter(TX + "p"))
            elif ch.tag == TX + "p":
                extra = [c.tag.split("}")[1] for c in ch.iter() if c is not ch and c.tag not in (odftext.S_TAG, odftext.TAB_TAG, odftext.LB_TAG)]
                style = ch.get(TX + "style-name", "")
                entries.append({"style": style, "text": odftext.collapse(ch), "raw": odftext.plain(ch), "extra": extra})
            else:
                entries.append({"style": "?", "text": "?" + ch.tag, "raw": "", "extra": ["unexpected"]})
    return {"heads": heads, "entries": entries, "title": title}


def expected_entries(spec_entries, heads_obs, outline):
    eff = 10 if outline == 0 else outline
    listed = [h for h in heads_obs if h["level"] <= eff]
    out = []
    for e, h in zip(spec_entries, listed):
        num = ".".join(str(n) for n in e["num"]) + "."
        out.append({"style": f"odfto_toc_level_{e['level']}", "text": f"{num} {h['text']}"})
    return out, len(listed)


def main(tier: str) -> int:
    run = Run("C20", tier)
    run.coverage["rule"] = (
        "every heading-level sequence up to the length bound over levels {1,2,3,4,10} x outline levels {0,1,2,3,10} (TLC prints the entries the "
        "specification expects) replayed on a real text document: heading texts with double spaces, tabs, line feeds, XML-special and non-ASCII "
        "characters and spans; TOC first / middle / last; fill once, twice, and again after a heading edit; index-body read with lxml (style "
        "level, ODF-collapsed text, child elements); odfdo-headers run on the saved file in the thorough tier and on a sample in quick. "
        "Distinct = (level-sequence shape: skips / resets / deep-first, outline, placement)."
    )
    run.assumptions += [
        "outline level 0 means 'no limit' (the code treats 0 as 10)",
        "a skipped level is numbered 1 and counts as an implicit ancestor afterwards (Toc.tla: Declared), as the counter machine does",
        "heading texts contain spans and white-space elements but no links or notes (their string form is markup, outside the quantifier)",
    ]
    maxlen = 4 if tier == "quick" else 6
    c = {"Levels": {1, 2, 3, 4, 10}, "MaxLen": maxlen, "Outlines": {0, 1, 2, 3, 10}, "Dump": True}
    cfg = make_cfg(spec="Spec", constants=c, invariants=["MachineIsDeclared", "ListsExactly", "NumbersPositive", "Emit"])
    res = run_tlc("Toc", cfg, workers=1, timeout=2400)
    run.add_tlc("Toc exhaustive (machine = declarative numbering, listing rule)", res, {"Levels": [1, 2, 3, 4, 10], "MaxLen": maxlen, "Outlines": [0, 1, 2, 3, 10]})
    if not res.ok:
        run.violation(f"model|{res.violated}", {"kind": "model", "tlc": res.stdout[-2500:]})
        return run.finish()
    recs = [p for p in res.printed if isinstance(p, dict) and "toc" in p]
    if not recs:
        run.machinery("Toc.tla printed nothing")
    rng0 = random.Random(run.seed)
    if tier == "quick" and len(recs) > 500:
        recs = rng0.sample(recs, 500)
    elif len(recs) > 8000:
        recs = rng0.sample(recs, 8000)
    script_budget = 6 if tier == "quick" else 150
    for ri, rec in enumerate(recs):
        levels = rec["heads"]
        rng = random.Random(run.seed * 7919 + ri)
        where = rng.choice(["first", "middle", "last"])
        outline = rng.choice([0, 1, 2, 3, 10])
        spec_entries = rec["toc"][str(outline)] if isinstance(rec["toc"], dict) else rec["toc"][outline]
        shape = ("skip" if any(b - a > 1 for a, b in zip([0] + levels, levels)) else "noskip", "reset" if any(b < a for a, b in zip(levels, levels[1:])) else "mono")
        run.klass(shape, outline, where, min(len(levels), 3))
        run.count()
        try:
            doc, toc, heads = make_doc(rng, levels, where)
            toc.outline_level = outline
            if rng.random() < 0.5:
                toc.set_toc_title("Contents")
            title_before = observe(doc)["title"]
            toc.fill()
            o1 = observe(doc)
            toc.fill()
            o2 = observe(doc)
        except Exception as ex:  # noqa: BLE001
            run.violation("exc|fill", {"kind": "exc", "levels": levels, "outline": outline, "got": repr(ex)})
            continue
        want, nlisted = expected_entries(spec_entries, o1["heads"], outline)
        got = [{"style": e["style"], "text": e["text"]} for e in o1["entries"]]
        ctx = {"levels": levels, "outline": outline, "where": where, "want": want, "got": o1["entries"]}
        if len(spec_entries) != nlisted:
            run.machinery(f"spec lists {len(spec_entries)} headings, document has {nlisted}: {levels} outline {outline}")
        if got != want:
            kind = "count" if len(got) != len(want) else ("number-or-text" if [g["text"] for g in got] != [w["text"] for w in want] else "style-level")
            run.violation(f"entries|{kind}", {"kind": kind, **ctx})
        elif any(e["extra"] for e in o1["entries"]):
            run.violation("entries|extra-content", {"kind": "extra", **ctx})
        elif any(e["raw"].rstrip("\n") != e["raw"] or e["raw"] != e["text"] and e["raw"].strip() != e["raw"] and False for e in o1["entries"]):
            run.violation("entries|trailing-line-break", {"kind": "extra", **ctx})
        if o2["entries"] != o1["entries"] or o2["title"] != o1["title"]:
            run.violation("fill|not-idempotent", {"kind": "idempotence", **ctx, "second": o2["entries"]})
        if o1["title"] != title_before:
            run.violation("title|changed", {"kind": "title", **ctx, "title": o1["title"], "title_before": title_before})
        # a heading edit between fills
        if heads and rng.random() < 0.5:
            k = rng.randrange(len(heads))
            live = doc.body.get_elements("descendant::text:h")
            live = [h for h in live if "table-of-content" not in (h.parent.tag if h.parent is not None else "")]
            if k < len(live):
                live[k].text = ("Edited " + live[k].text) if live[k].text else "Edited"
                toc.fill()
                o3 = observe(doc)
                want3, _ = expected_entries(spec_entries, o3["heads"], outline)
                got3 = [{"style": e["style"], "text": e["text"]} for e in o3["entries"]]
                if got3 != want3:
                    run.violation("entries|after-edit", {"kind": "after-edit", **ctx, "want3": want3, "got3": got3})
        # the heading-listing tool reports the same outline: its function on every document ...
        if levels:
            import contextlib
            import re as _re0

            from odfdo.scripts.headers import headers_document

            buf = io.StringIO()
            try:
                with contextlib.redirect_stdout(buf):
                    headers_document(doc, 999 if outline == 0 else outline)
                lines0 = [ln for ln in buf.getvalue().split("\n") if _re0.match(r"^\d+(\.\d+)*\. ", ln)]
            except Exception as ex:  # noqa: BLE001
                lines0 = ["exc: " + repr(ex)]
            if [ln.split(" ", 1)[0] for ln in lines0] != [w["text"].split(" ", 1)[0] for w in want]:
                run.violation("headers-tool|outline-differs", {"kind": "script", **ctx, "script": lines0})
            # the complete output: one line "<number> <text of the heading>" per listed heading (white-space elements expanded),
            # on the live document and on the document saved indented (pretty) and opened again
            eff = 10 if outline == 0 else outline
            listed = [h for h in observe(doc)["heads"] if h["level"] <= eff]
            wnums = [w["text"].split(" ", 1)[0] for w in want]
            if len(listed) == len(wnums):
                expected_out = "".join(f"{n} {h['plain']}\n" for n, h in zip(wnums, listed))
                from odfdo import Document as _Document

                pbuf = io.BytesIO()
                doc.save(pbuf, pretty=True)
                pbuf.seek(0)
                for how, d2 in (("live", doc), ("reopened-pretty", _Document(pbuf))):
                    out = io.StringIO()
                    try:
                        with contextlib.redirect_stdout(out):
                            headers_document(d2, 999 if outline == 0 else outline)
                        got_out = out.getvalue()
                    except Exception as ex:  # noqa: BLE001
                        got_out = "exc: " + repr(ex)
                    if got_out != expected_out:
                        run.violation(f"headers-tool|output-differs|{how}", {"kind": "script-output", **ctx, "want_out": expected_out, "got_out": got_out})
            # the command's own argument parsing (its defaults: no depth given = the whole outline), in process, on a saved file
            if outline == 0 or rng.random() < 0.2:
                from odfdo.scripts.headers import configure_parser, headers

                with tempfile.TemporaryDirectory(prefix="verif_c20p_") as d:
                    p = Path(d) / "doc.odt"
                    doc.save(p)
                    args = configure_parser().parse_args(([] if outline == 0 else ["--depth", str(outline)]) + [str(p)])
                    out = io.StringIO()
                    try:
                        with contextlib.redirect_stdout(out):
                            headers(args)
                        lines1 = [ln for ln in out.getvalue().split("\n") if _re0.match(r"^\d+(\.\d+)*\. ", ln)]
                    except BaseException as ex:  # noqa: BLE001
                        lines1 = ["exc: " + repr(ex)]
                    run.klass("headers-parser", outline)
                    if [ln.split(" ", 1)[0] for ln in lines1] != [w["text"].split(" ", 1)[0] for w in want]:
                        run.violation("headers-tool|defaults-differ", {"kind": "script", **ctx, "script": lines1})
        # ... and the command itself on a sample
        if script_budget > 0 and levels:
            script_budget -= 1
            with tempfile.TemporaryDirectory(prefix="verif_c20_") as d:
                p = Path(d) / "doc.odt"
                doc.save(p)
                depth = 999 if outline == 0 else outline
                r = subprocess.run(["/venv/bin/python", "-m", "odfdo.scripts.headers"] + (["-d", str(depth)] if outline else []) + [str(p)], capture_output=True, text=True,
                                   env={"PYTHONPATH": str(SRC), "PATH": "/usr/bin:/bin"})
                import re as _re

                lines = [ln for ln in r.stdout.split("\n") if _re.match(r"^\d+(\.\d+)*\. ", ln)]
                nums = [ln.split(" ", 1)[0] for ln in lines]
                wnums = [w["text"].split(" ", 1)[0] for w in want]
                run.klass("headers-script", outline)
                if r.returncode != 0 or nums != wnums:
                    run.violation("headers-script|outline-differs", {"kind": "script", **ctx, "script": lines, "rc": r.returncode, "stderr": r.stderr[-300:]})
        # the content part replaced as a whole (bytes of another document) after the body was read: the table of contents
        # found in the document now is the new one, and filling it lists the new headings - judged on the saved file
        if rng.random() < 0.3 and len(recs) > 1:
            rec2 = recs[(ri + 1) % len(recs)]
            levels2 = rec2["heads"]
            spec2 = rec2["toc"][str(outline)] if isinstance(rec2["toc"], dict) else rec2["toc"][outline]
            try:
                from odfdo import Document as _Doc

                doc2, toc2, _h2 = make_doc(rng, levels2, where)
                toc2.outline_level = outline
                data = doc2.get_part("content.xml").serialize()
                _ = doc.body
                how = rng.choice(["content", "content.xml"])
                doc.set_part(how, data)
                t = doc.body.get_element("descendant::text:table-of-content")
                t.fill()
                sbuf = io.BytesIO()
                doc.save(sbuf)
                sbuf.seek(0)
                o4 = observe(_Doc(sbuf))
                want4, n4 = expected_entries(spec2, o4["heads"], outline)
                got4 = [{"style": e["style"], "text": e["text"]} for e in o4["entries"]]
                run.klass("content-replaced", how)
                if n4 != len(spec2) or got4 != want4:
                    run.violation("entries|after-content-replaced", {"kind": "replaced", "levels": levels2, "outline": outline, "via": how, "want": want4, "got": got4})
            except Exception as ex:  # noqa: BLE001
                run.violation("exc|after-content-replaced", {"kind": "exc", "levels": levels2, "outline": outline, "got": repr(ex)})
    run.validated(len(recs))
    run.sample({"binding": "A:toc", "heads": recs[len(recs) // 2]["heads"], "expected": recs[len(recs) // 2]["toc"]})
    return run.finish()
