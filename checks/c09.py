"""C09 - inserting or removing markup never alters the paragraph text around it.

Specs: Markup.tla (token model of a paragraph; transcription of the
_by_regex_offset decorator, Element._insert, strip_tags, delete; new span
content through Para.tla's AppendPlain), MarkupMC.tla (all small layouts x
offsets x lengths x literal patterns x up to k successive insertions, then
removals; TextPreserved, WrapsDesignated, NoMatchNoChange,
RemovalKeepsOutside), MarkupTrace.tla (validation of real histories)."""
import random
import re

from harness import markup_lib as ml
from harness import odftext
from harness.common import Run
from harness.para_lib import chars, cps
from harness.tlc import make_cfg, run_tlc

PROPS = ["TextPreserved", "WrapsDesignated", "NoMatchNoChange", "RemovalKeepsOutside"]
WORDS = ["ab", "a", "b", "c d", "x<y", "q&r", "é", "中", "\U0001F600", "it's", 'say "hi"', "]]", "tab\there", "two  spaces", "nl\nhere", " lead", "trail "]


def event(par, o, tokens, variant):
    ev = {"pre": ml.project(par), "op": o}
    try:
        res = ml.apply(par, o, tokens, variant)
        if res is not par:
            ev["orig"] = ml.project(par)
        ev["post"] = ml.project(res)
        return ev, res
    except (ValueError, IndexError) as ex:
        ev["exc"] = type(ex).__name__
        ev["post"] = ml.project(par)
        return ev, par
    except Exception as ex:  # noqa: BLE001
        ev["exc"] = "crash:" + type(ex).__name__
        ev["post"] = ml.project(par)
        return ev, par


def rand_history(seed: int) -> list:
    from odfdo import Header, Paragraph

    rng = random.Random(seed)
    text = " ".join(rng.choice(WORDS) for _ in range(rng.randint(1, 4)))
    par = Paragraph(text) if rng.random() < 0.7 else Header(1, text)
    holder = None
    if rng.random() < 0.5:
        # the paragraph belongs to a document (some operations look things up from the document body)
        from odfdo import Document

        holder = Document("text")
        holder.body.append(par)
    events = []
    nsteps = rng.randint(1, 5)
    KINDS = ["wrap_offset", "wrap_offset", "wrap_pattern", "mark_occurrence", "mark_position", "mark_range", "mark_content", "strip_tags", "delete", "strip_self",
             "mark_element", "mark_first_child"]
    MARKS = {"mark_occurrence", "mark_position", "mark_range", "mark_content", "delete", "mark_element"}
    kinds = [rng.choice(KINDS) for _ in range(nsteps)]
    if rng.random() < 0.3:
        kinds = [rng.choice(sorted(MARKS)) for _ in range(nsteps)]       # mark-only histories: annotations may come early
    pairmode = rng.random() < 0.15
    if pairmode:
        # a range of marks laid over markup that is already there, then the start mark deleted on its own (documented: its end goes too)
        kinds = [rng.choice(["wrap_offset", "wrap_pattern"]), "mark_range", "delete"]
        nsteps = 3
    movemode = not pairmode and rng.random() < 0.12
    if movemode:
        # a range (or a point) reference laid over markup, another range next to it, then the end of the first one moved
        kinds = [rng.choice(["wrap_offset", "wrap_pattern"]), "mark_range", "mark_range", "move_end", "move_end"]
        nsteps = len(kinds)
    for step in range(nsteps):
        tokens = ml.project(par)
        slots = [t["s"] for t in tokens if t["k"] == "t"]
        total = sum(len(s) for s in slots)
        kind = kinds[step]
        # an annotation may be inserted when only mark operations follow (their offsets skip the text of annotations)
        note_ok = all(k in MARKS for k in kinds[step + 1:])
        if kind == "wrap_offset":
            o = {"op": kind, "tag": rng.choice(["span", "a"]), "off": rng.randint(0, total + 1), "len": rng.randint(0, 4)}
        elif kind in ("wrap_pattern", "mark_occurrence", "mark_content"):
            if slots and rng.random() < 0.85:
                s = rng.choice(slots)
                a = rng.randrange(len(s))
                p = s[a: a + rng.randint(1, 3)]
            else:
                p = cps("zz")
            if kind == "wrap_pattern":
                o = {"op": kind, "tag": rng.choice(["span", "a"]), "p": p}
            elif kind == "mark_content":
                o = {"op": kind, "p": p, "nth": rng.randint(-1, 1), "alone": note_ok}
            else:
                o = {"op": kind, "p": p, "nth": rng.randint(-1, 2), "before": rng.random() < 0.5, "alone": note_ok, "last": step == nsteps - 1}
        elif kind == "mark_position":
            o = {"op": kind, "pos": rng.randint(-1, total + 1), "alone": note_ok}
        elif kind == "mark_range":
            a = rng.randint(0, total + 1)
            o = {"op": kind, "a": a, "b": rng.randint(a, total + 2), "alone": note_ok}
        elif kind == "strip_tags":
            o = {"op": kind, "tag": rng.choice(["span", "a"])}
        elif kind == "mark_element":
            idx = [0] if tokens else []
            for i, t in enumerate(tokens):
                if t["k"] == "o" and tokens[i + 1]["k"] != "c":
                    idx.append(i + 1)
            if not idx:
                continue
            o = {"op": kind, "i": rng.choice(idx), "alone": note_ok}
        elif kind == "move_end":
            name = "rm3_0"
            if par.get_reference_mark_start(name=name) is None and par.get_reference_mark(name=name) is None:
                continue
            old = ml.token_index(par, tokens, "text:reference-mark-end", "text:name", name)
            o = {"op": kind, "name": name, "old": old, "pos": rng.randint(0, total + 1)}
        elif kind == "mark_first_child":
            if step != nsteps - 1:
                continue        # a note / annotation only as the last operation (its text is counted by later offsets)
            idx = [0] + [i + 1 for i, t in enumerate(tokens) if t["k"] == "o"]
            o = {"op": kind, "i": rng.choice(idx)}
        elif kind == "strip_self":
            idx = [i + 1 for i, t in enumerate(tokens) if t["k"] == "o"]
            if not idx:
                continue
            i = rng.choice(idx)
            o = {"op": kind, "i": i, "tag": tokens[i - 1]["tag"] if rng.random() < 0.7 else rng.choice(["span", "a"])}
        else:
            idx = [i + 1 for i, t in enumerate(tokens) if t["k"] in ("o", "e")]
            if not idx:
                continue
            i = rng.choice(idx)
            if pairmode:
                starts = [ml.token_index(par, tokens, tag, attr, name) for tag, attr, name in
                          (("text:reference-mark-start", "text:name", "rm3_0"), ("text:bookmark-start", "text:name", "bm3_0"))]
                starts = [x for x in starts if x]
                if starts:
                    i = starts[0]
            o = {"op": "delete", "i": i, "kind": tokens[i - 1].get("tag")}
        ev, par = event(par, o, tokens, rng.choice((1, 3, 5)) if movemode and kind == "mark_range" else rng.choice((0, 4)) if pairmode and kind == "delete" else (rng.choice((1, 3, 5)) if pairmode and kind == "mark_range" and rng.random() < 0.7 else rng.randint(0, 5)))
        events.append(ev)
        if "exc" in ev and ev["exc"].startswith("crash"):
            break
        # the deletion of an element standing between two blanks leaves two raw blanks side by side: a consumer reads one, and a
        # later operation may store one - the history ends there (states are required to be in the normal form the API writes)
        root = ml.tl.parse_wrapped(par.serialize())[0]
        if odftext.collapse(root) != odftext.plain(root):
            break
    return events


def main(tier: str) -> int:
    run = Run("C09", tier)
    run.coverage["rule"] = (
        "A: every transition of the bounded MarkupMC model (initial layouts incl. white-space elements, nested span, link, mark; set_span / "
        "set_link by offset 0..len+1 x length 0..3 and by every literal pattern of length 1-2; bookmarks / reference marks before/after the "
        "n-th occurrence or at a character position; remove_spans / remove_links; delete of every inline element) replayed on a real "
        "paragraph and judged by TLC; B: random histories of 1-5 operations on API-built paragraphs and headings over letters, XML-special, "
        "non-ASCII and astral characters, spaces, tabs, line feeds. Distinct = (op, tag/kind, hit|miss|exception, nesting depth)."
    )
    run.assumptions += [
        "offsets of set_span/set_link count all character data in document order (descendant::text()), as the decorator does; a match "
        "is wrapped up to the end of the text node it starts in (documented limitation, not flagged)",
        "the regex engine is Python's re on both sides: patterns are literals (re.escape)",
        "paragraphs are in the normal form the API itself produces (no raw double / leading / trailing spaces, no raw tab or line feed)",
        "after a note or annotation is inserted the offset semantics of set_span is unspecified (note text is counted): not generated",
    ]
    mc = {"Letters": {97, 98}, "MaxText": 3, "MaxOps": 2} if tier == "quick" else {"Letters": {97, 98}, "MaxText": 3, "MaxOps": 3}
    cfg = make_cfg(spec="Spec", constants={**mc, "Dump": False}, invariants=["WellNested"], properties=PROPS, view="View")
    res = run_tlc("MarkupMC", cfg, workers=16, timeout=3000)
    run.add_tlc("MarkupMC exhaustive", res, {k: sorted(v) if isinstance(v, set) else v for k, v in mc.items()})
    if not res.ok:
        run.violation(f"model|{res.violated}", {"kind": "model", "tlc": res.stdout[-2500:]})
    dc = {"Letters": {97}, "MaxText": 3, "MaxOps": 2} if tier == "quick" else {"Letters": {97, 98}, "MaxText": 3, "MaxOps": 2}
    cfg = make_cfg(spec="Spec", constants={**dc, "Dump": True}, action_constraints=["Emit"], view="View")
    res = run_tlc("MarkupMC", cfg, workers=1, timeout=3000)
    run.add_tlc("MarkupMC transition dump", res, {k: sorted(v) if isinstance(v, set) else v for k, v in dc.items()})
    edges = [p for p in res.printed if isinstance(p, dict) and "pre" in p]
    if not edges:
        run.machinery("MarkupMC dump is empty")
    rng = random.Random(run.seed)
    if len(edges) > 60000:
        edges = rng.sample(edges, 60000)
    traces = []
    for i, e in enumerate(edges):
        par = ml.build(e["pre"], "Paragraph" if i % 3 else "Header")
        ev, _ = event(par, dict(e["op"], alone=True), e["pre"], i)
        traces.append([ev])
    n_edges = len(traces)
    nb = 1500 if tier == "quick" else 40000
    for i in range(nb):
        h = rand_history(run.seed * 1_000_003 + i)
        if h:
            traces.append(h)
    resv, rep = ml.validate(traces, timeout=3000)
    run.add_tlc("MarkupTrace validation (replayed edges + random histories)", resv)
    if rep is None:
        run.machinery("MarkupTrace produced no report:\n" + resv.stdout[-2000:])
    nev = sum(len(t) for t in traces)
    run.count(nev)
    run.validated(len(traces))
    run.notes["edges_replayed"] = n_edges
    for ti, tr in enumerate(traces):
        for ev in tr:
            o = ev["op"]
            depth = max([0] + [sum(1 if t["k"] == "o" else -1 if t["k"] == "c" else 0 for t in ev["pre"][:k]) for k in range(len(ev["pre"]) + 1)])
            outcome = "exc" if "exc" in ev else ("nochange" if ev["post"] == ev["pre"] else "changed")
            run.klass("A" if ti < n_edges else "B", o["op"], o.get("tag", o.get("kind", "")), outcome, min(depth, 2))
            if ev.get("exc", "").startswith("crash"):
                run.violation(f"crash|{o['op']}|{ev['exc']}", {"kind": "crash", "event": ev})
    run.sample({"binding": "A:edge-as-trace", **traces[7][0]})
    run.sample({"binding": "B:history", "events": traces[-1]})
    for v in rep["verdicts"]:
        tr = traces[v["tid"] - 1]
        ev = tr[v["l"] - 1]
        run.violation(f"{v['clause']}|{ev['op']['op']}|{ev['op'].get('tag', '')}",
                      {"kind": v["clause"], "event": ev, "pre_xml": ml.tokens_xml(ev["pre"]), "history": [e["op"] for e in tr[: v["l"]]]})
    # the repository's own tests as traces: every set_span / set_link / mark / note insertion they make keeps the text
    ml.run_harvest_part(run, ("insert", "strip"), "markup")
    return run.finish()
