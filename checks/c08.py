"""C08 - table getters return correctly addressed, expanded, detached copies.

Spec: spec/GetterTrace.tla (on top of Grid.tla): for each getter the sequence
of handles it must return; recorded events (harness/getter_driver.py) carry
what the real getter returned and what the harness observed when mutating
each returned object."""
from harness import getter_driver as gd
from harness.common import Run
from harness.table_engine import model_check, QUICK


def main(tier: str) -> int:
    run = Run("C08", tier)
    run.coverage["rule"] = (
        "random tables (arbitrary run-length encodings, optional short edit history, optional cache-filling reads) x 16 getters x "
        "coordinates in range / at the edge / beyond; every returned object: x, y, content, repeat attribute recorded, then up to 6 "
        "returned objects are mutated (value, style, repeated, append, clear) and table / sibling serialisations compared. "
        "TLC computes the expected handle list per event. Distinct = (getter, position class, verdict-relevant layout)."
    )
    run.assumptions += [
        "get_cell/get_row/get_column (non-expanding getters) may keep a repeat attribute; the 'no repeat count' clause is claimed for the "
        "expanding getters only",
        "documented copies: all 16 getters of the property's list",
    ]
    res = model_check(QUICK["mc"])
    run.add_tlc("GridMC exhaustive (abstract design the getters read from)", res)
    if not res.ok:
        run.violation(f"model|{res.violated}", {"kind": "model"})
    n = 6000 if tier == "quick" else 120000
    evs = gd.generate(n, run.seed)
    res, rep = gd.validate(evs)
    run.add_tlc("GetterTrace validation", res)
    if rep is None:
        run.machinery("GetterTrace produced no report:\n" + res.stdout[-2000:])
    run.count(len(evs))
    run.validated(len(evs))
    for ev in evs:
        g = ev["g"]
        h, w = len(ev["pre"]["rows"]), len(ev["pre"]["cols"])
        run.klass(g["getter"], "y>=H" if g.get("y", 0) >= h else "y<H", "x>=W" if g.get("x", 0) >= w else "x<W",
                  "rowrun" if any(a == b for a, b in zip(ev["pre"]["rows"], ev["pre"]["rows"][1:])) else "norun")
    for ev in evs[:3]:
        run.sample({"binding": "B:getter-event", "g": ev["g"], "pre": ev["pre"], "got": ev.get("got"), "aliased": ev["aliased"]})
    for v in rep["verdicts"]:
        ev = evs[v["l"] - 1]
        run.violation(f"{v['clause']}|{ev['g']['getter']}", {"kind": v["clause"], "event": ev})
    return run.finish()
