"""C02 - what a table answers in memory is what its own XML says when parsed afresh.

Same specification as C01 (Grid.tla); the verdict observables are the
three-way agreement  live object == fresh parse == independent expansion
== model, checked after EVERY step of walks/histories in which
cache-filling reads are interleaved before each mutation; plus a document
save/reload at a random step of a history."""
import io
import random

from harness import tablelib as tl
from harness.common import Run
from harness.table_engine import edge_class, run_table_property, signature
from harness.table_driver import rand_op, rand_state, validate
from harness.vault_engine import run_vault_part


def save_reload_histories(run, n, steps):
    """Histories on a table inside a real spreadsheet document; after random
    steps the document is saved to a BytesIO and reloaded.  Recorded as
    GridTrace events whose `post` is the expansion of the RELOADED table and
    whose `fresh` are the answers of the reloaded table: TLC then requires
    reloaded == model == what the live object answered before saving."""
    from odfdo import Document

    traces = []
    for i in range(n):
        rng = random.Random(run.seed * 65537 + i)
        doc = Document("spreadsheet")
        body = doc.body
        body.clear()
        body.append(tl.build_table(rand_state(rng), rng.choice(("max", "none", "rand")), rng))
        table = body.get_table(0)
        state = {k: v for k, v in tl.xml_project(table.serialize()).items() if k in ("rows", "cols")}
        events = []
        for _ in range(steps):
            kinds = [k for k in tl.READ_KINDS if rng.random() < 0.4]
            tl.live_reads(table, kinds)
            o = rand_op(rng, state)
            if o["op"] == "csv":
                continue
            ev = {"kind": "table", "op": o}
            if not events:
                ev["pre"] = state
            try:
                tl.apply_op(table, o, rng, "rand")
                ev["live"] = tl.live_reads(table)
            except Exception as ex:  # noqa: BLE001
                ev["exc"] = type(ex).__name__
            proj = tl.xml_project(table.serialize())
            if "exc" not in ev and rng.random() < 0.5:
                buf = io.BytesIO()
                doc.save(buf)
                buf.seek(0)
                t2 = Document(buf).body.get_table(0)
                proj = tl.xml_project(t2.serialize())
                ev["fresh"] = tl.live_reads(t2)
                run.klass("save-reload", *edge_class(state, o))
            ev["post"] = {"rows": proj["rows"], "cols": proj["cols"]}
            ev["bad"] = sorted(set(proj["bad"]))
            events.append(ev)
            state = ev["post"]
            if "exc" in ev:
                break
        traces.append(events)
    res, verdicts = validate(traces)
    run.add_tlc("GridTrace validation of save/reload histories", res)
    if verdicts is None:
        run.machinery("GridTrace produced no report:\n" + res.stdout[-2000:])
    run.count(sum(len(t) for t in traces))
    run.validated(len(traces))
    for v in verdicts["verdicts"]:
        tr = traces[v["tid"] - 1]
        ev = tr[v["l"] - 1]
        pre = tr[v["l"] - 2]["post"] if v["l"] > 1 else ev["pre"]
        m = {"kind": f"reload:{v['clause']}:{v['what']}", "pre": pre, "op": ev["op"], "event": ev,
             "history": [e["op"] for e in tr[: v["l"]]], "start": tr[0]["pre"]}
        run.violation(signature(m), m)


def main(tier: str) -> int:
    run = Run("C02", tier)
    run.coverage["rule"] = (
        "walks through the TLC-dumped transition graph and recorded random histories on ONE live Table, a random subset of "
        "cache-filling reads (get_row, get_cell, traverse, get_column_cells, ...) before each mutation; after every step the live "
        "answers, the answers of a fresh parse of serialize() and an independent lxml expansion are each compared with the model's "
        "Reads(state) computed by TLC; plus save/reload of the enclosing document at random steps. Distinct = (binding, op, position class)."
    )
    run.assumptions += ["the independent reader (harness/tablelib.py:project_element) is trusted", "TLC/lxml trusted"]
    budgets = {"walks": (1200, 10), "traces": (400, 14)} if tier == "quick" else {"walks": (20000, 14), "traces": (8000, 16)}
    run_table_property(run, tier, verdict_kinds=("live", "fresh", "exc"), budgets=budgets, parts=("walks", "traces"))
    # the whole-table transformations, which rebuild or trim the stored runs, after cache-filling reads
    run_table_property(run, tier, verdict_kinds=("live", "fresh", "exc"), parts=("traces",),
                       budgets={"traces": (300, 8) if tier == "quick" else (6000, 10),
                                "ops": ["optimize_width", "optimize_width", "rstrip", "transpose", "transpose_area", "set_cell", "set_value", "append_row",
                                        "delete_column", "insert_column", "delete_row", "append_cell"]})
    # Vault.tla: position map edited in place + item cache; reads through them must be true
    run_vault_part(run, tier, verdict_kinds=("live",))
    save_reload_histories(run, 40 if tier == "quick" else 1500, 8)
    return run.finish()
