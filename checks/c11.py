"""C11 - saving is neutral: pretty/packaging change layout only; save never edits memory.

PackageMC.tla: SaveNeutral (Save changes no answer of the live document).
PackageTrace.tla clauses C11:*: a pretty / folder save writes the same LOOSE
form (element structure, every attribute, readable text of every paragraph and
heading after ODF white-space collapsing) as the belief, a plain save the same
STRICT form; the document's own view after every save equals the belief."""
from harness.common import Run
from harness.pkg_engine import run_package_property
from harness import pkg_driver as pd
from harness.pretty_engine import run_pretty_part


def main(tier: str) -> int:
    run = Run("C11", tier)
    run.coverage["rule"] = (
        "histories as C03 with the save-heavy operation mix, over templates, all sample documents and GENERATED text documents whose "
        "paragraphs put every inline kind (text, spaces, text:s, text:tab, text:line-break, span, link, note, frame, bookmark, annotation, "
        "nested span) next to every other; every save compared (loose form for pretty/folder, strict for plain) and the in-memory view "
        "re-read after each save. Distinct = (op, packaging, pretty, part, previous op, source kind)."
    )
    run.assumptions += [
        "loose form = harness/odftext.py:loose_form (ODF 1.2 part 1 section 6.1.2 element-aware collapse; objects inside a paragraph - "
        "notes, annotations, frames, anything outside the text: namespace - are not part of its text)",
        "the meta:generator stamp is exempt",
    ]
    sources = ["generated"] * 12 + list(pd.TEMPLATES) + [str(p) for p in pd.sample_files()]
    run_package_property(run, tier, prefixes=("C11:", "C03:flat-xml"), sources=sources)
    # Pretty.tla: the indentation function on every document of a bounded family of labelled trees
    run_pretty_part(run, tier)
    return run.finish()
