"""C18 - date, time, duration, boolean, colour codecs: exact inverses, ODF lexical form.

Specs: Codec.tla (encoders as the format the library writes, parsers as the
ODF/xsd lexical grammars, over integers and code-point sequences), CodecMC.tla
(boundary lattices: inverse and lexical-form laws; one-edit mutants of every
duration encoding with the grammar's verdict), CodecTrace.tla (random values
encoded and decoded by the real code)."""
import json
import os
import random
import tempfile
from datetime import date, datetime, timedelta, timezone
from pathlib import Path

from harness.common import Run
from harness.tlc import make_cfg, run_tlc

SUB = {48, 49, 80, 84, 72, 77, 83, 68, 45, 46, 120, 32, 43}
NAIVE = 9999
KNOWN_CSS = {"red": (255, 0, 0), "lime": (0, 255, 0), "blue": (0, 0, 255), "white": (255, 255, 255), "black": (0, 0, 0), "yellow": (255, 255, 0),
             "violet": (238, 130, 238), "orange": (255, 165, 0), "gray": (128, 128, 128), "navy": (0, 0, 128), "teal": (0, 128, 128), "silver": (192, 192, 192)}


def chars(c):
    return "".join(map(chr, c))


def td(v):
    return timedelta(days=v[0] * v[1], seconds=v[0] * v[2])


def td_fields(t: timedelta):
    total = t.days * 86400 + t.seconds
    if t.microseconds:
        return ["frac", total, t.microseconds]
    sign = -1 if total < 0 else 1
    total = abs(total)
    return [sign, total // 86400, total % 86400]


def dt_of(v):
    tz = None if v["off"] == NAIVE else timezone(timedelta(minutes=v["off"]))
    return datetime(v["y"], v["mo"], v["d"], v["h"], v["mi"], v["s"], v["us"], tzinfo=tz)


def dt_fields(d: datetime):
    off = NAIVE if d.utcoffset() is None else int(d.utcoffset().total_seconds() // 60)
    return {"y": d.year, "mo": d.month, "d": d.day, "h": d.hour, "mi": d.minute, "s": d.second, "us": d.microsecond, "off": off}


def replay_tables(run, recs):
    from odfdo.datatype import Boolean, Date, DateTime, Duration, Unit
    from odfdo.utils import hex2rgb, hexa_color, rgb2hex

    for r in recs:
        k, s = r["kind"], chars(r["str"])
        run.count()
        try:
            if k == "duration":
                v = r["val"]
                run.klass(k, v[0], "days" if v[1] else "nodays", "zero" if v[1] + v[2] == 0 else "nz")
                if Duration.encode(td(v)) != s:
                    run.violation("duration|lexical-form", {"kind": k, "val": v, "want": s, "got": Duration.encode(td(v))})
                if Duration.decode(s) != td(v):
                    run.violation("duration|not-inverse", {"kind": k, "val": v, "str": s, "got": str(Duration.decode(s))})
                for m in r["mutants"]:
                    ms = chars(m["m"])
                    if "." in ms:
                        run.notes["fractional_second_mutants_skipped"] = run.notes.get("fractional_second_mutants_skipped", 0) + 1
                        continue
                    run.count()
                    try:
                        got = td_fields(Duration.decode(ms))
                        accepted = True
                    except ValueError:
                        got, accepted = None, False
                    except Exception as ex:  # noqa: BLE001
                        run.violation("duration|decode-crash", {"kind": k, "mutant": ms, "got": repr(ex)})
                        continue
                    if m["v"] == [0, 0, 0]:
                        run.klass("duration-mutant", "reject")
                        if accepted:
                            run.violation("duration|accepts-non-lexical", {"kind": k, "mutant": ms, "decoded_as": got, "from": s})
                    else:
                        run.klass("duration-mutant", "accept")
                        if not accepted or got != m["v"]:
                            run.violation("duration|mutant-value", {"kind": k, "mutant": ms, "want": m["v"], "got": got})
            elif k == "date":
                v = r["val"]
                run.klass(k, "y<1000" if v["y"] < 1000 else "y4", v["mo"], v["d"])
                d = date(v["y"], v["mo"], v["d"])
                if Date.encode(d) != s or Date.encode(datetime(v["y"], v["mo"], v["d"], 13, 14, 15)) != s:
                    run.violation("date|lexical-form", {"kind": k, "val": v, "want": s, "got": Date.encode(d)})
                back = Date.decode(s)
                if (back.year, back.month, back.day, back.hour, back.minute, back.second) != (v["y"], v["mo"], v["d"], 0, 0, 0):
                    run.violation("date|not-inverse", {"kind": k, "val": v, "str": s, "got": str(back)})
            elif k == "datetime":
                v = r["val"]
                run.klass(k, "y<1000" if v["y"] < 1000 else "y4", "us" if v["us"] else "nous", "naive" if v["off"] == NAIVE else ("Z" if v["off"] == 0 else "off"))
                d = dt_of(v)
                if DateTime.encode(d) != s:
                    run.violation("datetime|lexical-form", {"kind": k, "val": v, "want": s, "got": DateTime.encode(d)})
                back = DateTime.decode(s)
                if dt_fields(back) != v:
                    run.violation("datetime|not-inverse", {"kind": k, "val": v, "str": s, "got": dt_fields(back)})
            elif k == "color":
                v = tuple(r["val"])
                run.klass(k, min(v), max(v))
                if rgb2hex(v) != s or hexa_color(v) != s:
                    run.violation("color|lexical-form", {"kind": k, "val": v, "want": s, "got": rgb2hex(v)})
                if hex2rgb(s) != v or hex2rgb(s.lower()) != v:
                    run.violation("color|not-inverse", {"kind": k, "val": v, "str": s, "got": hex2rgb(s)})
        except Exception as ex:  # noqa: BLE001
            run.violation(f"{k}|exc", {"kind": k, "record": {x: r[x] for x in ("val", "str")}, "got": repr(ex)})
    # booleans, CSS names, malformed colours, units: small fixed tables
    for val, s in ((True, "true"), (False, "false")):
        run.count()
        if Boolean.encode(val) != s or Boolean.decode(s) is not val:
            run.violation("boolean|inverse", {"val": val})
    for bad in ("True", "1", "", "yes", "TRUE", " true", "false "):
        run.count()
        try:
            Boolean.decode(bad)
            run.violation("boolean|accepts-non-lexical", {"str": bad})
        except ValueError:
            pass
    run.klass("boolean")
    from odfdo.utils.color import CSS3_COLORMAP

    for name, rgb in KNOWN_CSS.items():
        run.count()
        if name not in CSS3_COLORMAP or hex2rgb(rgb2hex(name)) != rgb:
            run.violation("color|css-name", {"name": name, "want": rgb})
    # the whole table against an independent copy of the CSS3 / SVG keyword list
    from harness.css_colors import CSS3, LEGACY

    for name in sorted(set(CSS3) | set(CSS3_COLORMAP)):
        want = CSS3.get(name)
        got = CSS3_COLORMAP.get(name)
        if want is None or got is None or (tuple(got) != want and tuple(got) != LEGACY.get(name)):
            run.violation("color|css-table", {"name": name, "want": want, "got": got})
    for name, rgb in CSS3_COLORMAP.items():
        run.count()
        h = rgb2hex(name)
        if hex2rgb(h) != tuple(rgb) or rgb2hex(name.upper()) != h or hexa_color(name) != h:
            run.violation("color|css-name-roundtrip", {"name": name})
    run.klass("color", "css-names")
    # a colour given with white space around it (a line read from a file ...): what comes out is still the ODF lexical form
    import re as _re

    for core in ("#FF8000", "#00ff7f", "#000000", "red", "LightSlateGray", "navy"):
        for lead in ("", " ", "\t", "\n", " \r\n"):
            for trail in ("", " ", "\t", "\n", "\r\n", " \n "):
                run.count()
                try:
                    got = hexa_color(lead + core + trail)
                except Exception as ex:  # noqa: BLE001
                    got = f"{type(ex).__name__}"
                if got != hexa_color(core) or not _re.fullmatch(r"#[0-9A-Fa-f]{6}", got or ""):
                    run.violation("color|padded-argument", {"arg": lead + core + trail, "got": got, "want": hexa_color(core)})
    run.klass("color", "padded")
    for bad in ("#12345", "#1234567", "123456", "#12345G", "#12 456", "", "#-12345", "#+12345", "# 12345"):
        run.count()
        try:
            got = hex2rgb(bad)
            run.violation("color|accepts-non-lexical", {"str": bad, "got": got})
        except ValueError:
            pass
    run.klass("color", "malformed")
    for s in ("12.5cm", "3in", "0.5pt", "10mm", "1.27cm", "0cm", "100px", "2.54cm", "0.001in"):
        run.count()
        if str(Unit(s)) != s:
            run.violation("unit|str", {"str": s, "got": str(Unit(s))})
    # a bare number with the unit given apart
    from decimal import Decimal as _D

    for num in ("12.5", "3", "0.001", "283"):
        for unit in ("mm", "cm", "in", "pt", "px"):
            for value in (num, _D(num), float(num) if "." not in num or num == "12.5" else _D(num)):
                run.count()
                try:
                    got = str(Unit(value, unit))
                except Exception as ex:  # noqa: BLE001
                    got = "exc:" + type(ex).__name__
                want = f"{_D(str(value)) if not isinstance(value, str) else value}{unit}"
                if got != want and _D(got[: -len(unit)] if got.endswith(unit) else "0") != _D(str(value)) or not got.endswith(unit):
                    run.violation("unit|value-and-unit", {"value": repr(value), "unit": unit, "got": got})
    run.klass("unit")


def random_records(seed, n):
    from odfdo.datatype import Date, DateTime, Duration
    from odfdo.utils import hex2rgb, rgb2hex

    rng = random.Random(seed)
    out = []
    for _ in range(n):
        k = rng.choice(["duration", "date", "datetime", "color"])
        rec = {"kind": k}
        try:
            if k == "duration":
                d = rng.choice([0, 0, 1, 2, rng.randint(3, 400), rng.randint(400, 20000)])
                s = rng.choice([0, 59, 60, 3599, 3600, 86399, rng.randint(0, 86399)])
                sign = rng.choice([1, -1]) if d + s else 1
                rec["val"] = [sign, d, s]
                enc = Duration.encode(td(rec["val"]))
                rec["str"] = [ord(c) for c in enc]
                rec["back"] = td_fields(Duration.decode(enc))
            elif k == "date":
                y = rng.choice([1, 99, 999, 1000, rng.randint(1, 9999), 9999])
                mo = rng.randint(1, 12)
                d = rng.randint(1, 28) if rng.random() < 0.7 else [31, 29 if (y % 4 == 0 and y % 100 != 0) or y % 400 == 0 else 28, 31, 30, 31, 30, 31, 31, 30, 31, 30, 31][mo - 1]
                rec["val"] = {"y": y, "mo": mo, "d": d}
                enc = Date.encode(date(y, mo, d))
                rec["str"] = [ord(c) for c in enc]
                b = Date.decode(enc)
                rec["back"] = {"y": b.year, "mo": b.month, "d": b.day}
            elif k == "datetime":
                y = rng.choice([1, 999, 1000, rng.randint(2, 9998), 9999])
                off = rng.choice([NAIVE, 0, 60, -300, 330, 840, -840, rng.randint(-839, 839)])
                if y in (1, 9999) and off != NAIVE:
                    off = 0
                v = {"y": y, "mo": rng.randint(1, 12), "d": rng.randint(1, 28), "h": rng.randint(0, 23), "mi": rng.randint(0, 59), "s": rng.randint(0, 59),
                     "us": rng.choice([0, 0, 1, 10, 999999, rng.randint(0, 999999)]), "off": off}
                rec["val"] = v
                enc = DateTime.encode(dt_of(v))
                rec["str"] = [ord(c) for c in enc]
                rec["back"] = dt_fields(DateTime.decode(enc))
            else:
                v = [rng.randint(0, 255) for _ in range(3)]
                rec["val"] = v
                enc = rgb2hex(tuple(v))
                rec["str"] = [ord(c) for c in enc]
                rec["back"] = list(hex2rgb(enc))
        except Exception as ex:  # noqa: BLE001
            rec["exc"] = repr(ex)[:150]
            rec.setdefault("val", 0)
        out.append(rec)
    return out


def main(tier: str) -> int:
    run = Run("C18", tier)
    run.coverage["rule"] = (
        "A: TLC's tables over boundary lattices (durations {0,1,59,60,61,3599,3600,3661,86399}s x {0,1,2,30,365,20000} days x sign with every "
        "one-character mutant over {0,1,P,T,H,M,S,D,-,.,x,space}; dates years {1,2,999,1000,1999,2000,2024,9999} x month/day edges incl. leap "
        "days; date-times x microseconds {0,1,500000,999999} x offsets {none,Z,+-00:30,+-14:00,+01:00}; colours 8 values per channel) replayed "
        "both ways into Duration/Date/DateTime/Boolean and hex2rgb/rgb2hex/hexa_color, every CSS colour name, malformed colours and booleans, "
        "unit strings; B: random values validated by TLC (CodecTrace). Distinct = (codec, lattice cell class, mutant verdict)."
    )
    run.assumptions += [
        "fractional seconds of durations are outside the property's quantifier (whole-second durations): mutants containing '.' are skipped",
        "rejection is claimed for durations, booleans and colours (simple lexical spaces); for dates Python's fromisoformat decides what "
        "else is accepted - only the inverse and the written form are claimed",
        "a date decodes to a midnight datetime (pinned by the repository's tests)",
    ]
    c = {"Dump": True, "Sub": SUB}
    cfg = make_cfg(spec="Spec", constants=c, invariants=["DurationInverse", "DurationLexical", "DateInverse", "ColorInverse", "Emit"])
    res = run_tlc("CodecMC", cfg, workers=1, timeout=1500, heap="8g")
    run.add_tlc("CodecMC lattices (inverse + lexical form laws, mutant verdicts)", res)
    if not res.ok:
        run.violation(f"model|{res.violated}", {"kind": "model", "tlc": res.stdout[-2000:]})
        return run.finish()
    recs = [p for p in res.printed if isinstance(p, dict) and "kind" in p]
    if not recs:
        run.machinery("CodecMC printed nothing")
    replay_tables(run, recs)
    run.validated(len(recs))
    run.sample({"binding": "A:table-row", "kind": recs[3]["kind"], "val": recs[3]["val"], "str": chars(recs[3]["str"])})
    rr = random_records(run.seed, 4000 if tier == "quick" else 200000)
    fd, path = tempfile.mkstemp(prefix="verif_codec_", suffix=".json")
    try:
        with os.fdopen(fd, "w") as f:
            json.dump(rr, f)
        cfg = make_cfg(spec="Spec", invariants=["Report"])
        res = run_tlc("CodecTrace", cfg, workers=1, timeout=3000, env={"TRACE_FILE": path}, heap="8g")
    finally:
        Path(path).unlink(missing_ok=True)
    run.add_tlc("CodecTrace validation of random values", res)
    rep = next((p for p in res.printed if isinstance(p, dict) and "verdicts" in p), None)
    if rep is None:
        run.machinery("CodecTrace produced no report:\n" + res.stdout[-2000:])
    run.count(len(rr))
    run.validated(len(rr))
    for v in rep["verdicts"]:
        r = rr[v["l"] - 1]
        run.violation(f"{v['clause']}", {"kind": v["clause"], "record": {**r, "str": chars(r.get("str", []))}})
    return run.finish()
