"""C13 - styles land in the right container, stay unique by family+name, are found again.

Specs: Styles.tla (dispatch table of Document.insert_style, lookup order of
Document.get_style, automatic naming, merge), StylesMC.tla (bounded exhaustive:
RightContainer, Unique, FoundAgain, AutoNamesFresh, MergeIsUnionOtherWins),
StylesTrace.tla (validation of replayed transitions and of random sequences on
templates and sample documents with their real style populations)."""
import io
import json
import random

from harness import styles_lib as sl
from harness.common import REPO, Run
from harness.tlc import make_cfg, run_tlc

PROPS = ["RightContainer", "FoundAgain", "AutoNamesFresh", "MergeIsUnionOtherWins"]
SAMPLES = ["lpod_styles.odt", "styled_table.ods", "example.odt", "span_style.odt", "simple_table.ods", "base_text.odt", "minimal_hidden.ods", "test_col_cell.ods"]
NAMES = ["verifA", "verifB", "Standard", "odfdo_auto_7", "odfdo_auto_x", "Text_20_body"]


def edge_event(e):
    o = e["op"]
    doc = sl.build(e["pre"])
    other = sl.build(e["pre_other"])
    ev = {"op": o, "pre": sl.project(doc), "pre_other": sl.project(other)}
    if o["op"] == "insert":
        o = dict(o, via=random.Random(json.dumps(e, sort_keys=True, default=str)).choice(["own", "own", "arg", "other"]))
        ev["op"] = o
        tgt, oth = (doc, other) if o["d"] == "doc" else (other, doc)
        ev["pre"], ev["pre_other"] = sl.project(tgt), sl.project(oth)
        ev.update(sl.do_insert(tgt, o))
        ev["post"], ev["post_other"] = sl.project(tgt), sl.project(oth)
    else:
        try:
            doc.merge_styles_from(other)
        except Exception as ex:  # noqa: BLE001
            ev["exc"] = repr(ex)[:200]
        ev["post"], ev["post_other"] = sl.project(doc), sl.project(other)
    return ev


def open_doc(rng):
    from odfdo import Document

    src = rng.choice(["text", "spreadsheet", "presentation", "drawing"] + SAMPLES)
    if src in SAMPLES:
        return Document(io.BytesIO((REPO / "tests" / "samples" / src).read_bytes())), src
    return Document(src), src


def rand_history(seed):
    rng = random.Random(seed)
    doc, src = open_doc(rng)
    other, src2 = open_doc(rng)
    # real files also keep automatic styles of the ordinary families in styles.xml (used by headers and footers): the same family
    # and name may then sit, in the two documents, in different containers of the part
    if rng.random() < 0.4:
        from odfdo import Style

        a, b = (doc, other) if rng.random() < 0.5 else (other, doc)
        fam = rng.choice(["paragraph", "text"])
        cont = b.styles.get_element("//office:automatic-styles")
        if cont is not None and a.get_style(fam, "verif_homonym") is None and b.get_style(fam, "verif_homonym") is None:
            a.insert_style(Style(fam, name="verif_homonym"))
            cont.append(Style(fam, name="verif_homonym"))
    forced = []
    if rng.random() < 0.2:
        # names a later helper will want for itself are already taken (by a common style / a bare style)
        from odfdo import Style

        if doc.get_type() == "spreadsheet" and doc.get_style("table", "ta_0") is None:
            doc.insert_style(Style("table", name="ta_0"))
            forced.append("set_table_displayed")
        if doc.get_style("paragraph", "odfdopagebreak") is None:
            doc.insert_style(Style("paragraph", name="odfdopagebreak") if rng.random() < 0.5 else Style("paragraph", name="odfdopagebreak", bold=True))
            forced.append("add_page_break_style")
    events = []
    burst = rng.random() < 0.25 and not forced   # many unnamed automatic styles of one family (two-digit indexes)
    for step in range(rng.randint(2, 6) if not burst else 14):
        kind = "insert" if burst else rng.choice(["insert"] * 6 + ["merge", "set_table_displayed", "add_page_break_style"])
        if forced and step < len(forced):
            kind = forced[step]
        ev = {"op": {"op": kind}, "src": src}
        ev["pre"], ev["pre_other"] = sl.project(doc), sl.project(other)
        if kind == "insert":
            fam = "text" if burst else rng.choice(["paragraph", "paragraph", "text", "table-cell", "table", "master-page", "font-face", "page-layout"])
            std = fam in ("paragraph", "text", "table-cell", "table")
            mode = "auto-unnamed" if burst else rng.choice(["common", "auto-named", "auto-unnamed", "default"] if std else ["named", "named-default"])
            name = "" if mode in ("auto-unnamed", "default") else rng.choice(NAMES)
            o = {"op": "insert", "d": "doc", "family": fam, "name": name, "via": rng.choice(["own", "own", "arg", "other", "refamily"]),
                 "automatic": mode in ("auto-named", "auto-unnamed"), "default": mode in ("default", "named-default") and (std or fam == "font-face")}
            if o["via"] == "refamily" and o["name"]:
                # over a style of that family and name that is already there (it must be replaced, not doubled)
                there = sorted({st["name"] for c in ev["pre"].values() for st in c if st.get("family") == fam and st.get("name")})
                if there and rng.random() < 0.8:
                    o["name"] = rng.choice(there)
            ev["op"] = o
            ev.update(sl.do_insert(doc, o))
            if "exc" not in ev and rng.random() < 0.3:
                try:
                    ev["found_reloaded"] = sl.reloaded_lookup(doc, o, ev["ret"])
                except Exception as ex:  # noqa: BLE001
                    ev["exc"] = "reload:" + repr(ex)[:150]
        elif kind == "merge":
            try:
                doc.merge_styles_from(other)
                # the number / currency / ... styles that came along: found again under family + name, once each
                ev["data_styles_wrong"] = sl.merged_data_styles_ok(doc, other)
            except Exception as ex:  # noqa: BLE001
                ev["exc"] = repr(ex)[:200]
        elif kind == "set_table_displayed":
            tables = doc.body.get_elements("descendant::table:table")
            if not tables or doc.get_type() != "spreadsheet":
                continue
            idx = rng.randrange(len(tables))
            try:
                doc.set_table_displayed(idx, rng.random() < 0.5)
                st = doc.get_table_style(idx)
                ev["table_style_found"] = st is not None and doc.get_style("table", tables[idx].style) is not None
            except Exception as ex:  # noqa: BLE001
                ev["exc"] = repr(ex)[:200]
                ev["table_style_found"] = False
        else:
            try:
                doc.add_page_break_style()
                # (read from the common styles of styles.xml, where the helper puts it: an automatic namesake inserted by the
                # history would shadow it in a lookup by name - the documented assumption on homonyms)
                from lxml import etree as _et

                root = _et.fromstring(doc.get_part("styles.xml").serialize())
                ns = {"office": "urn:oasis:names:tc:opendocument:xmlns:office:1.0", "style": "urn:oasis:names:tc:opendocument:xmlns:style:1.0",
                      "fo": "urn:oasis:names:tc:opendocument:xmlns:xsl-fo-compatible:1.0"}
                hits = root.xpath("office:styles/style:style[@style:name='odfdopagebreak'][@style:family='paragraph']", namespaces=ns)
                ev["pagebreak_ok"] = len(hits) == 1 and any(pp.get("{%s}break-after" % ns["fo"]) == "page" for pp in hits[0].findall("style:paragraph-properties", ns))
            except Exception as ex:  # noqa: BLE001
                ev["exc"] = repr(ex)[:200]
        ev["post"], ev["post_other"] = sl.project(doc), sl.project(other)
        events.append(ev)
    return events


def main(tier: str) -> int:
    run = Run("C13", tier)
    run.coverage["rule"] = (
        "A: every transition of the bounded StylesMC model (insert_style over 5 families x names incl. an odfdo_auto_N look-alike x "
        "automatic/default flags on two documents, merge_styles_from) replayed on real documents holding exactly the model's population; "
        "B: random sequences on the 4 templates and 6 sample documents with their real populations: named/unnamed/automatic/default inserts "
        "(bursts of 14 unnamed automatic styles), merge_styles_from, set_table_displayed, add_page_break_style; lookups also after save + "
        "reload. TLC applies Styles.tla to each recorded pre-state. Distinct = (op, family, mode, pre-existing same name, source)."
    )
    run.assumptions += [
        "names are expected to be unique per family across the document: a same-named style already present in a container looked up "
        "earlier shadows the inserted one (StylesMC.tla: FoundAgain), and an insert whose namesake sits in another container of the same "
        "part is unspecified (skipped)",
        "set_table_displayed / add_page_break_style are specified as relations (nothing lost or renamed, uniqueness, lookup)",
    ]
    mc = {"Names": {"A", "odfdo_auto_3"}, "MaxOps": 3 if tier == "quick" else 4}
    cfg = make_cfg(spec="Spec", constants={**mc, "Dump": False}, invariants=["InvUnique"], properties=PROPS, view="View")
    res = run_tlc("StylesMC", cfg, workers=16, timeout=3000)
    run.add_tlc("StylesMC exhaustive", res, {"Names": sorted(mc["Names"]), "MaxOps": mc["MaxOps"]})
    if not res.ok:
        run.violation(f"model|{res.violated}", {"kind": "model", "tlc": res.stdout[-2500:]})
    dc = {"Names": {"A", "odfdo_auto_3"}, "MaxOps": 2}
    cfg = make_cfg(spec="Spec", constants={**dc, "Dump": True}, action_constraints=["Emit"], view="View")
    res = run_tlc("StylesMC", cfg, workers=1, timeout=3000)
    run.add_tlc("StylesMC transition dump", res, {"Names": sorted(dc["Names"]), "MaxOps": 2})
    edges = [p for p in res.printed if isinstance(p, dict) and "pre" in p]
    if not edges:
        run.machinery("StylesMC dump is empty")
    rng = random.Random(run.seed)
    if tier == "quick" and len(edges) > 1500:
        edges = rng.sample(edges, 1500)
    import multiprocessing as mp

    with mp.get_context("fork").Pool(16) as pool:
        traces = [[ev] for ev in pool.map(edge_event, edges, chunksize=50)]
        n_edges = len(traces)
        nb = 160 if tier == "quick" else 4000
        traces += [h for h in pool.map(rand_history, [run.seed * 3_000_017 + i for i in range(nb)], chunksize=10) if h]
    # every insert_style the repository's own tests make, recorded by the external plugin
    rc, hev, _tail = sl.harvest_repo_style_tests()
    run.notes["harvested_insert_style_calls"] = len(hev)
    run.notes["harvest_pytest_rc"] = rc
    traces += [[e] for e in hev]
    resv, rep = sl.validate(traces, timeout=3000)
    run.add_tlc("StylesTrace validation (replayed edges + random sequences + calls harvested from the repository's tests)", resv)
    if rep is None:
        run.machinery("StylesTrace produced no report:\n" + resv.stdout[-2500:])
    run.count(sum(len(t) for t in traces))
    run.validated(len(traces))
    run.notes["edges_replayed"] = n_edges
    for ti, tr in enumerate(traces):
        for ev in tr:
            o = ev["op"]
            same = any(s["name"] == o.get("name") and s["family"] == o.get("family") for c in ev["pre"].values() for s in c) if o["op"] == "insert" else False
            run.klass("A" if ti < n_edges else ("H" if "test" in ev else "B"), o["op"], o.get("family"), o.get("automatic"), o.get("default"), bool(o.get("name")), same, "exc" in ev)
    run.sample({"binding": "A:edge-as-trace", "op": traces[5][0]["op"], "pre": traces[5][0]["pre"], "post": traces[5][0]["post"], "ret": traces[5][0].get("ret")})
    for v in rep["verdicts"]:
        tr = traces[v["tid"] - 1]
        ev = tr[v["l"] - 1]
        o = ev["op"]
        small = {k: x for k, x in ev.items() if k not in ("pre", "post", "pre_other", "post_other")}
        diff = {c: {"pre": ev["pre"][c][-3:], "post": ev["post"][c][-3:]} for c in ev["pre"] if ev["pre"][c] != ev["post"][c]}
        run.violation(f"{v['clause']}|{o['op']}|{o.get('family', '')}|auto={o.get('automatic')}|default={o.get('default')}",
                      {"kind": v["clause"], "event": small, "changed": diff, "history": [e["op"] for e in tr[: v["l"]]]})
    return run.finish()
