"""C15 - reading, searching and exporting a document never changes it.

PackageTrace.tla, op "pure": every part of the document (content, styles, meta,
settings, manifest) has the same identifier before and after the call, and the
call answers the same when repeated.  The catalogue of read-only entry points
is built by introspection of the public API of Document, Body, Meta, Styles,
Content, Manifest, Table, Row, Cell, Paragraph, Header, Frame, List, TOC, Span,
Note, Section, DrawPage (names classified in harness/pure_driver.py) plus
curated calls with arguments (exports, searches, counts, reads beyond the
edge)."""
from harness import pkg_driver as pd
from harness import pure_driver as pu
from harness.common import Run
from harness.pkg_engine import model_check


def main(tier: str) -> int:
    run = Run("C15", tier)
    run.coverage["rule"] = (
        "for templates, every sample document (tables bounded to 2500 cells) and generated documents (mixed inline content, tables with "
        "trailing empty rows/cells): every read-only entry point called twice in a seeded random order; strict identifiers (C14N, generator "
        "blanked) of content/styles/meta/settings/manifest before and after each call compared by TLC. Distinct = entry point name."
    )
    run.assumptions += [
        "classification read-only vs write is by name/docstring (harness/pure_driver.py: READ_PREFIX, READ_EXACT, WRITE_RE, DOCUMENTED_WRITES); "
        "getters documented as creating what they do not find (get_variable_decls, get_user_field_decls) are writes",
        "an entry point that raises (e.g. to_markdown on a spreadsheet) is still required to leave the document unchanged",
    ]
    model_check(run, "quick")
    if tier == "quick":
        traces = pu.generate(14, run.seed, 150) + [pu.history((run.seed * 7 + i, "generated", 400)) for i in range(3)] \
            + [pu.history((run.seed * 11 + i, "generated-sheet", 200)) for i in range(2)]
    else:
        traces = pu.generate(84, run.seed, 2000, all_samples=True) + pu.generate(12, run.seed + 1, 2000)
        import multiprocessing as mp

        with mp.get_context("fork").Pool(16) as pool:
            traces += pool.map(pu.history, [(run.seed * 7 + i, "generated", 2000) for i in range(32)] + [(run.seed * 11 + i, "generated-sheet", 2000) for i in range(16)])
    res, rep = pd.validate(traces)
    run.add_tlc("PackageTrace validation of read-only calls", res)
    if rep is None:
        run.machinery("PackageTrace produced no report:\n" + res.stdout[-2000:])
    n = 0
    for tr in traces:
        for ev in tr:
            if ev["op"] == "pure":
                n += 1
                run.klass(ev["name"])
    run.count(n)
    run.validated(len(traces))
    run.notes["documents"] = len(traces)
    run.sample({"binding": "B:pure-events", "events": [{k: e[k] for k in ("name", "same", "raised")} for e in traces[0][1:6]]})
    for v in rep["verdicts"]:
        tr = traces[v["tid"] - 1]
        ev = tr[v["l"] - 1]
        run.violation(f"{v['clause']}|{ev.get('name')}", {"kind": v["clause"], "src": tr[0]["src"], "entry_point": ev.get("name"),
                                                       "changed_parts": [k for k in ev.get("before", {}) if ev["before"][k] != ev["after"].get(k)],
                                                       "calls_before": [e.get("name") for e in tr[1: v["l"]]][-5:]})
    # the reads made in the middle of package histories (parts read through get_part between edits, deletions, saves, in
    # every way of opening a document - also parts that were deleted: asking for one must not bring it back)
    from harness.pkg_engine import run_package_property

    run_package_property(run, tier, prefixes=("C15:",), ntraces=160 if tier == "quick" else 2000, mc=False)
    return run.finish()
