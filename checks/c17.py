"""C17 - whole-table transformations preserve the content they are not meant to remove.

Specs: Grid.tla (Transpose, RStrip as functions; optimize_width as a relation;
CSV round trip), GridMC.tla (laws: transpose involution, rstrip idempotent and
value-preserving), Span.tla (set_span / del_span laws).  Binding A replays the
dumped transitions of GridMC and Span; binding B validates recorded histories
whose operation mix is dominated by the transformations."""
import io
import random
import subprocess
import tempfile
from pathlib import Path

from harness import span_lib as sl
from harness import table_driver as td
from harness.common import Run
from harness.table_engine import run_table_property
from harness.tlc import make_cfg, run_tlc

OPS = ["transpose", "transpose", "transpose_area", "transpose_area", "rstrip", "rstrip", "optimize_width", "optimize_width", "csv",
       "set_cell", "set_row", "insert_cell", "append_row", "set_values", "delete_cell", "insert_column", "set_column_cells"]
SPAN_INV = ["SetThenDelRestores", "NoOrphanCovered"]
SPAN_PROP = ["CoversExactly", "RefusesOverlap", "ValuesKept"]


def span_part(run, tier):
    mc = {"W": 3, "H": 2, "Vals": {1, 2}} if tier == "quick" else {"W": 3, "H": 3, "Vals": {1}}
    cfg = make_cfg(spec="Spec", constants={**mc, "Dump": False}, invariants=SPAN_INV, properties=SPAN_PROP, view="View")
    res = run_tlc("Span", cfg, workers=16, timeout=1500)
    run.add_tlc("Span exhaustive (span laws)", res, {k: sorted(v) if isinstance(v, set) else v for k, v in mc.items()})
    if not res.ok:
        run.violation(f"model|{res.violated}", {"kind": "model", "tlc": res.stdout[-2000:]})
    dc = {"W": 2, "H": 2, "Vals": {1}} if tier == "quick" else {"W": 3, "H": 2, "Vals": {1}}
    cfg = make_cfg(spec="Spec", constants={**dc, "Dump": True}, action_constraints=["Emit"], view="View")
    res = run_tlc("Span", cfg, workers=1, timeout=1500)
    run.add_tlc("Span transition dump", res, {k: sorted(v) if isinstance(v, set) else v for k, v in dc.items()})
    edges = [p for p in res.printed if isinstance(p, dict) and "pre" in p]
    if not edges:
        run.machinery("Span dump is empty")
    rng0 = random.Random(run.seed)
    if len(edges) > 40000:
        edges = rng0.sample(edges, 40000)
    for i, e in enumerate(edges):
        for enc in ("max", "none", "rand"):
            rng = random.Random(run.seed * 31 + i)
            table = sl.build(e["pre"], enc, rng)
            o = e["op"]
            cls = (o["op"], o.get("merge"), e["ret"], enc)
            run.klass(*cls)
            run.count()
            try:
                ret = sl.apply(table, o)
            except Exception as ex:  # noqa: BLE001
                run.violation(f"span|exc|{o['op']}", {"kind": "exc", "edge": e, "enc": enc, "got": repr(ex)})
                continue
            post = sl.project(table, dc["W"], dc["H"])
            if ret != e["ret"]:
                run.violation(f"span|return|{o['op']}|{'overlap' if not e['ret'] else 'ok'}", {"kind": "ret", "edge": e, "enc": enc, "got": ret})
            elif post != e["post"]:
                run.violation(f"span|post|{o['op']}|merge={o.get('merge')}", {"kind": "post", "edge": e, "enc": enc, "got": post})
    run.validated(len(edges) * 3)
    run.sample({"binding": "A:span-edge", **edges[len(edges) // 2]})


def shrink_script_part(run, n):
    """odfdo-table-shrink on saved files: the shrunk file must satisfy the
    optimize_width relation w.r.t. the original (checked by TLC)."""
    from odfdo import Document

    from harness import tablelib as tl

    traces = []
    with tempfile.TemporaryDirectory(prefix="verif_c17_") as d:
        for i in range(n):
            rng = random.Random(run.seed * 131 + i)
            doc = Document("spreadsheet")
            doc.body.clear()
            st = td.rand_state(rng, 5, 6)
            if not st["rows"]:
                continue
            doc.body.append(tl.build_table(st, rng.choice(("max", "rand")), rng))
            src = Path(d) / f"in{i}.ods"
            dst = Path(d) / f"out{i}.ods"
            doc.save(src)
            pre = tl.xml_project(Document(src).body.get_table(0).serialize())
            r = subprocess.run(["/venv/bin/python", "-m", "odfdo.scripts.table_shrink", "-i", str(src), "-o", str(dst)],
                               capture_output=True, text=True, env={"PYTHONPATH": str(Path(tl.__file__).parent), **_env()})
            ev = {"kind": "table", "op": {"op": "optimize_width"}, "pre": {"rows": pre["rows"], "cols": pre["cols"]}}
            if r.returncode != 0 or not dst.exists():
                ev["exc"] = "script-failed"
                ev["post"] = ev["pre"]
            else:
                post = tl.xml_project(Document(dst).body.get_table(0).serialize())
                ev["post"] = {"rows": post["rows"], "cols": post["cols"]}
                ev["bad"] = sorted(set(post["bad"]))
            traces.append([ev])
    if not traces:
        return
    res, verdicts = td.validate(traces)
    run.add_tlc("GridTrace validation of odfdo-table-shrink runs", res)
    run.count(len(traces))
    run.validated(len(traces))
    for v in verdicts["verdicts"]:
        ev = traces[v["tid"] - 1][0]
        run.violation(f"shrink-script|{v['clause']}:{v['what']}", {"kind": "script", "event": ev})


def _env():
    import os

    from harness.common import SRC

    e = dict(os.environ)
    e["PYTHONPATH"] = str(SRC)
    return e


def main(tier: str) -> int:
    run = Run("C17", tier)
    run.coverage["rule"] = (
        "transpose / rstrip / optimize_width / CSV round trip inside random histories on ragged, styled, arbitrarily run-length-encoded "
        "tables (TLC validates each event: exact function for transpose and rstrip, relation + idempotence for optimize_width, value "
        "equality for CSV); every set_span / del_span transition of the bounded Span model replayed on a real table in 3 encodings. "
        "Distinct = (op, position class) for histories, (op, merge, accepted, encoding) for spans."
    )
    run.assumptions += [
        "transposing drops declared columns beyond the widest row (columns carry style only): the involution law is on the populated matrix",
        "optimize_width's exact result depends on the run-length layout of trailing empty cells, so it is specified as a relation "
        "(only empty trailing cells/rows removed, prefix kept, idempotent)",
        "CSV: widths >= 2 (csv.Sniffer needs a delimiter), values integers/None; styles are not exported",
        "set_span over an area that leaves the table is unspecified and not generated",
    ]
    budgets = {"walks": (200, 8), "traces": (500, 12), "edge_sample": 3000, "ops": OPS} if tier == "quick" else {"traces": (8000, 14), "ops": OPS}
    run_table_property(run, tier, verdict_kinds=("xml", "live", "exc", "model"), budgets=budgets, parts=("mc", "edges", "traces"))
    span_part(run, tier)
    shrink_script_part(run, 6 if tier == "quick" else 120)
    return run.finish()
