"""C16 - search and replace act on the text exactly as the regular expression says.

Specs: Markup.tla (token model), ReplaceTrace.tla (count / replace / formatted
replace / search clauses; the regex engine is Python's re on both sides: each
event carries the per-slot match spans, TLC recomputes them for literal
patterns), MarkupMC.tla is model-checked for the token operators it shares."""
import random

from harness import markup_lib as ml
from harness import replace_driver as rd
from harness.common import Run
from harness.tlc import make_cfg, run_tlc


def main(tier: str) -> int:
    run = Run("C16", tier)
    run.coverage["rule"] = (
        "API-built paragraphs and headings (words with XML-special, non-ASCII, astral characters, double spaces, tabs, line feeds; 0-3 spans or "
        "links applied by offset; optional bookmark) x {count, replace, formatted replace, search_all/search_first/search/match/text_at} x "
        "patterns (literal substrings of a text slot, or one of a regex family: repetition, class, alternation, optional, anchors, \\s, ., "
        "\\w+, groups; patterns matching empty are skipped) x replacements {'', 'x', ' ', '  ', TAB, 'a\\nb', 'x  y', ' z ', non-ASCII, XML-special}. "
        "Distinct = (op, formatted, pattern kind, replacement class, markup present, matches in >1 slot)."
    )
    run.assumptions += [
        "the regex engine itself is trusted (Python re computes the spans on both sides); what is verified is the walk over text slots, tails and markup",
        "formatted replace is exercised on link-free paragraphs (the docstring limits it to paragraph, span, heading) and, for pure deletions, "
        "only the text and skeleton clauses apply",
        "search positions index text_recursive (the element's own text as the library defines it); equality with the readable text is "
        "claimed for link-free content only (Link.__str__ renders '[text](url)')",
    ]
    mc = {"Letters": {97, 98}, "MaxText": 3, "MaxOps": 2}
    cfg = make_cfg(spec="Spec", constants={**mc, "Dump": False}, invariants=["WellNested"],
                   properties=["TextPreserved", "WrapsDesignated", "NoMatchNoChange", "RemovalKeepsOutside"], view="View")
    res = run_tlc("MarkupMC", cfg, workers=16, timeout=1500)
    run.add_tlc("MarkupMC exhaustive (token operators shared with C09)", res, {k: sorted(v) if isinstance(v, set) else v for k, v in mc.items()})
    if not res.ok:
        run.violation(f"model|{res.violated}", {"kind": "model"})
    n = 6000 if tier == "quick" else 120000
    import multiprocessing as mp

    with mp.get_context("fork").Pool(16) as pool:
        traces = pool.map(rd.event, [run.seed * 2_000_003 + i for i in range(n)], chunksize=200)
    resv, rep = rd.validate(traces, timeout=3000)
    run.add_tlc("ReplaceTrace validation", resv)
    if rep is None:
        run.machinery("ReplaceTrace produced no report:\n" + resv.stdout[-2500:])
    run.count(len(traces))
    run.validated(len(traces))
    for tr in traces:
        ev = tr[0]
        o = ev["op"]
        multi = sum(1 for s in ev["spans"] if s) > 1
        newc = "none" if "new" not in o else ("empty" if not o["new"] else ("ws" if any(c in (32, 9, 10) for c in o["new"]) else "plain"))
        run.klass(o["op"], o.get("formatted"), "lit" if "p" in o else o["rx"], newc, any(t["k"] == "o" for t in ev["pre"]), multi)
    run.sample({"binding": "B:replace-event", "pre_xml": ml.tokens_xml(traces[3][0]["pre"]), "op": traces[3][0]["op"], "post_xml": ml.tokens_xml(traces[3][0]["post"])})
    for v in rep["verdicts"]:
        ev = traces[v["tid"] - 1][0]
        if v["clause"].startswith("harness:"):
            run.machinery(f"{v['clause']}: {ev['op']}")
        run.violation(f"{v['clause']}|{ev['op']['op']}|formatted={ev['op'].get('formatted')}",
                      {"kind": v["clause"], "pre_xml": ml.tokens_xml(ev["pre"]), "post_xml": ml.tokens_xml(ev["post"]),
                       "event": {k: x for k, x in ev.items() if k not in ("pre", "post")}})
    return run.finish()
