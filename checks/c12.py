"""C12 - every element class round-trips through XML and comes back as the same class.

Specs: Registry.tla (registry dispatch, own-tag rule, generic property codec)
on RegistryData.tla, a module GENERATED at run time from the working tree
(every register_element_class call found by AST, every class's own tag and
PropDef properties); RegistryTrace.tla validates one record per instance built
with generated constructor arguments."""
import json
import os
import tempfile
from pathlib import Path

from harness import registry_lib as rl
from harness.common import Run
from harness.tlc import make_cfg, run_tlc

# constructor arguments that share a name with a property but are documented as something else
BY_DESIGN = {
    ("VarSet", "display"): "display is a flag: False writes text:display='none', True shows the value",
    ("Style", "font_family_generic"): "documented as a 'font-face' family argument: ignored by the other families",
    ("Style", "font_pitch"): "documented as a 'font-face' family argument: ignored by the other families",
}
# attributes with a value fixed by ODF that the wrapper class re-asserts whenever it wraps an element
FIXED_VALUE = {("MetaAutoReload", "actuate"), ("MetaAutoReload", "show"), ("MetaAutoReload", "type"), ("MetaTemplate", "type"), ("MetaTemplate", "actuate"),
               ("MetaHyperlinkBehaviour", "show"), ("MetaHyperlinkBehaviour", "target_frame_name")}


def main(tier: str) -> int:
    run = Run("C12", tier)
    run.coverage["rule"] = (
        "for every class in the live registry: instances built with type-directed generated constructor arguments (str incl. XML-special, "
        "non-ASCII and the words true/false, bool, int, datetime, timedelta, sizes; arguments are dropped until the constructor accepts them); "
        "serialise, C14N, re-parse with from_tag, reach the element through children / get_elements / xpath / get_element / clone / parent; "
        "every generic property read after construction and after re-parse, and assigned a new value (None, booleans, strings). "
        "Distinct = (class, set of arguments given)."
    )
    run.assumptions += [
        "an argument is required to be visible through a property only when the class declares a generic (PropDef) property of the same "
        "name, the property's family guard matches, and the value is a str or bool; a False given to a flag that is then absent (None) is "
        "the default and accepted",
        "by-design exceptions: " + "; ".join(f"{c}.{p}: {why}" for (c, p), why in BY_DESIGN.items()),
    ]
    text, info = rl.registry_data_module()
    run.notes["registry"] = info
    cfg = make_cfg(spec="Spec", constants={"Registered": "=RegisteredData", "OwnTag": "=OwnTagData", "Props": "=PropsData"}, invariants=["Report"])
    for k in ("Registered", "OwnTag", "Props"):
        cfg = cfg.replace(f"{k} = {k}Data", f"{k} <- {k}Data")
    res = run_tlc("RegistryData", cfg, workers=1, timeout=900, extra_files={"RegistryData.tla": text})
    run.add_tlc("Registry on data extracted from the working tree", res, info)
    rep0 = next((p for p in res.printed if isinstance(p, dict) and "clashes" in p), None)
    if rep0 is None:
        run.machinery("Registry.tla printed no report:\n" + res.stdout[-2000:])
    run.notes["registry_tlc"] = {"tags": rep0["tags"], "classes": rep0["classes"]}
    for tag, winner, loser in rep0["clashes"]:
        run.violation(f"registry|tag-registered-twice|{tag}|{winner}|{loser}", {"kind": "registry", "tag": tag, "dispatches_to": winner, "also_registered_by": loser})
    for cname, tag in rep0["nothome"]:
        run.violation(f"registry|own-tag-dispatches-elsewhere|{cname}|{tag}", {"kind": "registry", "class": cname, "tag": tag})
    for p in rep0["badprops"]:
        run.violation(f"registry|property-declared-twice|{p[0]}|{p[1]}", {"kind": "registry", "prop": p})
    if not rep0["codec"]:
        run.violation("model|PropRoundTrip", {"kind": "model"})
    # the AST view of the registrations must agree with the live registry (binding of the generated data)
    live = rl.live_registry()
    first = {}
    for t, c in rl.registrations():
        first.setdefault(t, c)
    from odfdo.element import _get_lxml_tag

    for t, c in first.items():
        if live.get(str(_get_lxml_tag(t))) != c:
            run.violation("registry|dispatch-differs-from-registration-order", {"tag": t, "first_registered": c, "live": live.get(str(_get_lxml_tag(t)))})
    # arguments that come in four sides: given alone, all of them take effect or none does
    for v in rl.sibling_argument_effects():
        odd = [s for s, e in v["effect_alone"].items() if e is not True]
        run.violation(f"sibling-argument-ignored|{v['class']}|{v['family']}|{v['group']}_{'+'.join(odd)}", {"kind": "sibling-argument-ignored", **v})
        run.klass("siblings", v["class"], v["family"], v["group"])
    # arguments whose values are an enumeration of the standard: each documented value is kept as given
    for v in rl.enumerated_argument_values():
        run.violation(f"enumerated-argument-not-kept|{v['class']}|{v['arg']}", {"kind": "enumerated-argument-not-kept", **v})
    for e in rl.ENUM_ARGS:
        run.klass("enumerated", e[0], e[2])
        run.count(len(e[4]))
    per = 12 if tier == "quick" else 300
    names = sorted(rl.classes())
    import multiprocessing as mp

    jobs = [(c, run.seed * 7_000_003 + i * 1000 + k) for k, c in enumerate(names) for i in range(per)]
    with mp.get_context("fork").Pool(16) as pool:
        recs = pool.starmap(rl.record, jobs, chunksize=40)
    for r in recs:
        for p in r.get("props", []):
            if (r["class"], p["name"]) in BY_DESIGN or (p["given"] == "<False>" and p["after"] == "<none>"):
                p["given"] = "<absent>"
            if (r["class"], p["name"]) in FIXED_VALUE:
                p["set"] = p["after_set"] = "<absent>"
        run.klass(r["class"], tuple(sorted(r.get("kwargs", {}))))
    fd, path = tempfile.mkstemp(prefix="verif_registry_", suffix=".json")
    try:
        with os.fdopen(fd, "w") as f:
            json.dump(recs, f)
        cfg = make_cfg(spec="Spec", invariants=["Report"])
        res = run_tlc("RegistryTrace", cfg, workers=1, timeout=3000, env={"TRACE_FILE": path}, heap="8g")
    finally:
        Path(path).unlink(missing_ok=True)
    run.add_tlc("RegistryTrace validation", res)
    rep = next((p for p in res.printed if isinstance(p, dict) and "verdicts" in p), None)
    if rep is None:
        run.machinery("RegistryTrace produced no report:\n" + res.stdout[-2500:])
    run.count(len(recs))
    run.validated(len(recs))
    run.notes["classes_instantiated"] = len({r["class"] for r in recs if "exc" not in r})
    run.sample({"binding": "B:instance-record", **{k: recs[5].get(k) for k in ("class", "kwargs", "tag", "reparsed_class", "infoset_equal")}})
    for v in rep["verdicts"]:
        r = recs[v["l"] - 1]
        if v["clause"].startswith("exc:constructor"):
            run.notes["classes_without_generated_instance"] = sorted(set(run.notes.get("classes_without_generated_instance", [])) | {r["class"]})
            continue
        detail = {"kind": v["clause"], "class": r["class"], "kwargs": r.get("kwargs"), "exc": r.get("exc")}
        if "props" in r:
            norm = {"true": "<True>", "false": "<False>"}
            detail["props"] = [p for p in r["props"] if p["after"] != p["reparsed"] or (p["given"] != "<absent>" and p["after"] != norm.get(p["given"], p["given"]))
                               or (p["set"] != "<absent>" and p["after_set"] != norm.get(p["set"], p["set"]))][:8]
            detail["paths"] = r.get("paths")
            detail["reparsed_class"] = r.get("reparsed_class")
        which = ""
        if v["clause"] == "constructor-argument-not-visible":
            which = ",".join(p["name"] for p in r["props"] if p["given"] != "<absent>" and p["after"] not in (p["given"], {"true": "<True>", "false": "<False>"}.get(p["given"])))
        run.violation(f"{v['clause']}|{r['class']}|{which}", detail)
    return run.finish()
