"""C06 - typed values survive the trip through the document for every value of every type.

Specs: Typed.tla (type lattice; the isinstance dispatch chains are EXTRACTED
from the working tree's source by AST and given to TLC: MostSpecificFirst),
TypedTrace.tla (documented value-type / attribute / read-back-kind
correspondence, ODF lexical space of every attribute written - recognisers of
Codec.tla), over records of values stored in every carrier of the real code."""
import ast
import inspect
import io
import json
import math
import os
import random
import tempfile
from datetime import date, datetime, timedelta, timezone
from decimal import Decimal
from pathlib import Path

from harness.common import Run
from harness.tlc import make_cfg, run_tlc, tla_value

CARRIERS = ["cell", "row", "table", "varset", "userfielddecl", "userdefined", "meta"]


def chains_from_source():
    from odfdo.element_typed import ElementTyped
    from odfdo.meta import Meta

    def labels(fn):
        src = inspect.getsource(fn)
        tree = ast.parse("class _X:\n" + src if src.startswith("    ") else src)
        best = []
        for node in ast.walk(tree):
            if isinstance(node, ast.If):
                chain = []
                cur = node
                while True:
                    t = cur.test
                    if isinstance(t, ast.Call) and getattr(t.func, "id", "") == "isinstance" and getattr(t.args[0], "id", "") == "value":
                        chain.append(ast.unparse(t.args[1]))
                    else:
                        break
                    if len(cur.orelse) == 1 and isinstance(cur.orelse[0], ast.If):
                        cur = cur.orelse[0]
                    else:
                        break
                if len(chain) > len(best):
                    best = chain
        out = []
        for x in best:
            x = x.replace(" ", "")
            out.append({"bool": "bool", "(int,float,Decimal)": "number", "int": "int", "datetime": "datetime", "date": "date", "dtdate": "date",
                        "str": "str", "timedelta": "timedelta"}.get(x, x))
        return out

    return {"element_typed": labels(ElementTyped.set_value_and_type), "meta": labels(Meta.set_user_defined_metadata)}


def gen_value(rng):
    k = rng.choice(["bool", "int", "int", "float", "float", "decimal", "str", "str", "date", "datetime", "datetime", "timedelta"])
    if k == "bool":
        return k, rng.random() < 0.5
    if k == "int":
        return k, rng.choice([0, 1, -1, 255, -(2**31), 2**53 + 1, 10**18 + 1, -(10**30) - 7, rng.randint(-10**6, 10**6), 12345678901234567890123])
    if k == "float":
        return k, rng.choice([0.0, -0.0, 0.1, 1.5, -2.75, 1e20, 1.5e-7, 1e300, 123456789.125, 3.0, -17.0, rng.uniform(-1e6, 1e6), 2.0**60, 1 / 3])
    if k == "decimal":
        return k, rng.choice([Decimal("0.10"), Decimal("1.500"), Decimal("-3"), Decimal("1E+2"), Decimal("12345678901234567890.123456789"), Decimal("0"), Decimal("7"), Decimal("-0.000001")])
    if k == "str":
        return k, rng.choice(["", " ", "plain", "  two  spaces  ", "a<b & c>d", 'quote " and \'', "été 中 \U0001F600", "true", "false", "True", "123", "2024-01-01", "line\nbreak", "tab\there",
                              "x" * 300, "PT1S", " lead", "trail "])
    if k == "date":
        return k, rng.choice([date(1, 1, 1), date(999, 12, 31), date(2024, 2, 29), date(9999, 12, 31), date(rng.randint(1, 9999), rng.randint(1, 12), rng.randint(1, 28))])
    if k == "datetime":
        tz = rng.choice([None, timezone.utc, timezone(timedelta(hours=5, minutes=30)), timezone(timedelta(hours=-14)), timezone(timedelta(minutes=1))])
        y = rng.choice([2, 999, 1970, 2024, 9998])
        if rng.random() < 0.2:
            return k, datetime(y, rng.randint(1, 12), rng.randint(1, 28), 0, 0, 0, 0, tzinfo=tz)      # exactly midnight, naive or aware
        return k, datetime(y, rng.randint(1, 12), rng.randint(1, 28), rng.randint(0, 23), rng.randint(0, 59), rng.randint(0, 59), rng.choice([0, 0, 1, 999999, rng.randint(0, 999999)]), tzinfo=tz)
    return k, rng.choice([timedelta(0), timedelta(seconds=1), timedelta(hours=25), timedelta(days=400, seconds=3661), timedelta(seconds=-1), timedelta(days=-2, seconds=5), timedelta(seconds=rng.randint(-10**7, 10**7))])


def equal(kind, v, back):
    if back is None:
        return False
    try:
        if kind == "bool":
            return back is v
        if kind in ("int", "float", "decimal"):
            if isinstance(back, bool) or not isinstance(back, (int, Decimal, float)):
                return False
            return Decimal(str(v)) == Decimal(str(back)) if not isinstance(back, Decimal) else Decimal(str(v)) == back
        if kind == "str":
            return isinstance(back, str) and back == v
        if kind == "date":
            return isinstance(back, datetime) and back == datetime(v.year, v.month, v.day)
        if kind == "datetime":
            return isinstance(back, datetime) and back == v and back.utcoffset() == v.utcoffset() and back.microsecond == v.microsecond
        if kind == "timedelta":
            return isinstance(back, timedelta) and back == v
    except Exception:  # noqa: BLE001
        return False
    return False


def kind_of(x):
    for t, n in ((bool, "bool"), (int, "int"), (float, "float"), (Decimal, "decimal"), (str, "str"), (datetime, "datetime"), (date, "date"), (timedelta, "timedelta")):
        if isinstance(x, t):
            return n
    return "none" if x is None else type(x).__name__


def one_record(seed):
    from odfdo import Cell, Document, Element, Row, Table
    from odfdo.variable import UserDefined, UserFieldDecl, VarSet

    rng = random.Random(seed)
    carrier = CARRIERS[seed % len(CARRIERS)]
    kind, v = gen_value(rng)
    _k2, other = gen_value(rng)
    overwrite = rng.random() < 0.5
    if rng.random() < 0.15:
        # values that compare equal in Python across types: the new value must still win, with its own type
        group = rng.choice(([True, 1, 1.0, Decimal("1.0")], [False, 0, 0.0, Decimal("0")]))
        v, other = rng.sample(group, 2)
        kind = kind_of(v)
        overwrite = True
    integral = kind in ("int", "float", "decimal") and Decimal(str(v)) == Decimal(str(v)).to_integral_value()
    rec = {"carrier": carrier, "kind": kind, "integral": bool(integral), "repr": repr(v)[:80], "over": (repr(other)[:40] if overwrite else "")}
    O = "{urn:oasis:names:tc:opendocument:xmlns:office:1.0}"
    try:
        doc = None
        if carrier == "meta":
            doc = Document("text")
            if overwrite:
                doc.meta.set_user_defined_metadata("verif", other)   # an entry of another type already there
            doc.meta.set_user_defined_metadata("verif", v)
            got = doc.meta.get_user_defined_metadata()["verif"]
            el = [e for e in doc.meta.get_elements("//meta:user-defined") if e.get_attribute("meta:name") == "verif"][0]
            rec["vtype"] = el.get_attribute_string("meta:value-type")
            rec["attr"] = "text"
            rec["text"] = [ord(c) for c in (el.text or "")]
            reread = lambda d: d.meta.get_user_defined_metadata()["verif"]  # noqa: E731
            rec["integral"] = False if kind in ("int", "float", "decimal") else rec["integral"]   # meta numbers always come back Decimal
        else:
            if carrier == "cell":
                how = rng.choice(("ctor", "set_value", "value=", "typed="))
                if how == "value=" or (how == "typed=" and kind not in ("datetime", "date", "bool", "str", "timedelta")):
                    # the property setter (what a get_cell / modify / set_cell cycle uses)
                    el = Cell(other) if overwrite else Cell()
                    el.value = v
                elif how == "typed=":
                    # the setter named after the type
                    el = Cell(other) if overwrite else Cell()
                    setattr(el, {"datetime": "datetime", "date": "date", "bool": "bool", "str": "string", "timedelta": "duration"}[kind], v)
                elif overwrite:
                    el = Cell(other)
                    el.set_value(v)
                else:
                    el = Cell(v)
                rec["via"] = how
                read = lambda e: e.value  # noqa: E731
            elif carrier == "row":
                row = Row()
                if overwrite:
                    row.set_value(0, other)
                row.set_value(0, v)
                el = row.get_cell(0)
                read = lambda e: e.get_value()  # noqa: E731
            elif carrier == "table":
                t = Table("T")
                if overwrite:
                    t.set_value((1, 1), other)
                t.set_value((1, 1), v)
                el = t.get_cell((1, 1))
                read = lambda e: e.get_value()  # noqa: E731
            elif carrier == "varset":
                if overwrite:
                    el = VarSet("n", value=other)
                    el.set_value(v)
                else:
                    el = VarSet("n", value=v)
                read = lambda e: e.get_value()  # noqa: E731
            elif carrier == "userfielddecl":
                if overwrite:
                    el = UserFieldDecl("n", value=other)
                    el.set_value(v)
                else:
                    el = UserFieldDecl("n", value=v)
                read = lambda e: e.get_value()  # noqa: E731
            elif rng.random() < 0.5:
                # the field takes its value from the document's metadata entry of that name (from_document=)
                d0 = Document("text")
                if overwrite:
                    d0.meta.set_user_defined_metadata("n", other)
                d0.meta.set_user_defined_metadata("n", v)
                el = UserDefined("n", from_document=d0)
                read = lambda e: e.get_value()  # noqa: E731
                rec["via"] = "from_document"
                if kind == "date":
                    # the metadata entry of a plain date reads as that day at midnight: this is the value the field receives
                    kind, v = "datetime", datetime(v.year, v.month, v.day)
                    rec["kind"] = kind
            else:
                el = UserDefined("n", value=v)
                read = lambda e: e.get_value()  # noqa: E731
            got = read(el)
            rec["vtype"] = el.get_attribute_string("office:value-type")
            x = el._Element__element
            present = [a for a in ("boolean-value", "value", "date-value", "string-value", "time-value") if x.get(O + a) is not None]
            rec["attr"] = "office:" + present[0] if len(present) == 1 else "+".join(present) or "none"
            rec["text"] = [ord(c) for c in (x.get(O + present[0]) if present else "")]
            back2 = read(Element.from_tag(el.serialize()))
            rec["equal_reparsed"] = equal(kind, v, back2)
            if carrier in ("cell", "table", "row") and rng.random() < 0.3:
                d = Document("spreadsheet")
                d.body.clear()
                tt = Table("S")
                tt.set_value((0, 0), v)
                d.body.append(tt)
                buf = io.BytesIO()
                d.save(buf)
                buf.seek(0)
                rec["equal_reloaded"] = equal(kind, v, Document(buf).body.get_table(0).get_value((0, 0)))
        rec["back_kind"] = kind_of(got)
        rec["equal"] = equal(kind, v, got)
        if doc is not None:
            buf = io.BytesIO()
            doc.save(buf)
            buf.seek(0)
            rec["equal_reloaded"] = equal(kind, v, reread(Document(buf)))
    except Exception as ex:  # noqa: BLE001
        rec["exc"] = f"{type(ex).__name__}: {ex}"[:160]
    return rec


def main(tier: str) -> int:
    run = Run("C06", tier)
    run.coverage["rule"] = (
        "values of every supported type incl. boundaries (huge/negative ints, floats with exponents, Decimals with trailing zeros, empty / "
        "white-space / XML-special / non-ASCII strings and strings that look like other types, years 1..9999, aware datetimes, microseconds, "
        "multi-day and negative durations) x 7 carriers; read back directly, after re-parsing the element, after save + reopen. TLC checks the "
        "value type, the attribute, its lexical space, the read-back kind; equality is computed exactly (Decimal). The isinstance chains of "
        "the working tree are extracted by AST and checked by TLC (MostSpecificFirst). Distinct = (carrier, kind, value class)."
    )
    run.assumptions += [
        "a float is compared through its exact decimal expansion str(float) (TLA+ has no floating point; Python's repr is trusted)",
        "numbers read back from user defined metadata are always Decimal; elsewhere integral numbers come back int (documented by the tests)",
        "a date reads back as a midnight datetime; whole-second durations; non-finite floats are not generated",
    ]
    chains = chains_from_source()
    run.notes["dispatch_chains_from_source"] = chains
    if not all(chains.values()):
        run.machinery(f"could not extract the isinstance chains from the source: {chains}")
    cfg_c = "[" + ", ".join(f"{k} |-> {tla_value(v)}" for k, v in chains.items()) + "]"
    # (a cfg file cannot hold a record: the extracted chains go into a generated wrapper module)
    wrapper = "---- MODULE TypedMC ----\nEXTENDS Typed\nChainsFromSource == " + cfg_c + "\n====\n"
    cfg = make_cfg(spec="Spec", constants={"Chains": "=ChainsFromSource"}, invariants=["MostSpecificFirst"]).replace("Chains = ChainsFromSource", "Chains <- ChainsFromSource")
    res = run_tlc("TypedMC", cfg, workers=1, timeout=600, extra_files={"TypedMC.tla": wrapper})
    run.add_tlc("Typed (dispatch chains extracted from the source: MostSpecificFirst)", res, {"Chains": chains})
    if not res.ok:
        run.violation(f"model|{res.violated}", {"kind": "model", "chains": chains, "tlc": res.stdout[-1500:]})
    n = 2100 if tier == "quick" else 70000
    import multiprocessing as mp

    with mp.get_context("fork").Pool(16) as pool:
        recs = pool.map(one_record, [run.seed * 5_000_011 + i for i in range(n)], chunksize=50)
    clean = []
    for r in recs:
        if "exc" not in r and not (isinstance(r.get("text"), list) and isinstance(r.get("vtype"), str) and isinstance(r.get("attr"), str)):
            run.violation(f"malformed-observation|{r['carrier']}|{r['kind']}", {"kind": "shape", "record": r})
        else:
            clean.append(r)
        run.klass(r["carrier"], r["kind"], r["integral"], len(r.get("repr", "")) > 25, bool(r.get("over")))
    fd, path = tempfile.mkstemp(prefix="verif_typed_", suffix=".json")
    try:
        with os.fdopen(fd, "w") as f:
            json.dump(clean, f)
        cfg = make_cfg(spec="Spec", invariants=["Report"])
        res = run_tlc("TypedTrace", cfg, workers=1, timeout=3000, env={"TRACE_FILE": path}, heap="8g")
    finally:
        Path(path).unlink(missing_ok=True)
    run.add_tlc("TypedTrace validation", res)
    rep = next((p for p in res.printed if isinstance(p, dict) and "verdicts" in p), None)
    if rep is None:
        run.machinery("TypedTrace produced no report:\n" + res.stdout[-2500:])
    run.count(len(clean))
    run.validated(len(clean))
    run.sample({"binding": "B:typed-record", **{k: clean[4][k] for k in ("carrier", "kind", "repr", "vtype", "attr", "back_kind", "equal")}})
    for v in rep["verdicts"]:
        r = clean[v["l"] - 1]
        cls = "looks-like-bool" if r["kind"] == "str" and r["repr"].strip("'\"").lower() in ("true", "false") else ""
        run.violation(f"{v['clause']}|{r['carrier']}|{r['kind']}|{cls}", {"kind": v["clause"], "record": {**r, "text": "".join(map(chr, r.get("text", [])))}})
    # MetaStore.tla: the typed fields of meta.xml (strings, dates, durations, counters) are independent, read back what was stored,
    # also after save and reopen; refused values change nothing
    from harness.meta_lib import run_meta_part

    run_meta_part(run, tier)
    return run.finish()
