"""Self-test of the bindings (not a registered check): shows that the trace
specifications really constrain the recorded executions.

 1. traces recorded from the unchanged code are accepted;
 2. corrupting ONE recorded field makes TLC reject exactly that event;
 3. dropping one event from a history makes TLC reject the event that follows it
    (the specification's state did not take the missing step).

Usage: ./check SELFTEST
"""
import copy
import json
import random

from harness import para_lib as pl
from harness import pkg_driver as pd
from harness import table_driver as td


def expect(name, ok, detail=""):
    print(("ok   " if ok else "FAIL ") + name + (" " + detail if detail else ""))
    return ok


def main(tier: str) -> int:
    rng = random.Random(7)
    good = True
    # ---- tables (GridTrace)
    traces = td.generate(40, 11, 10)
    res, rep = td.validate(copy.deepcopy(traces))
    good &= expect("GridTrace accepts 40 recorded table/row histories", rep is not None and not rep["verdicts"], f"({sum(len(t) for t in traces)} events)")
    # corrupt one cell of one recorded post-state
    cand = [(ti, li) for ti, tr in enumerate(traces) for li, ev in enumerate(tr) if ev["kind"] == "table" and ev["post"]["rows"] and ev["post"]["rows"][0]]
    ti, li = rng.choice(cand)
    bad = copy.deepcopy(traces)
    bad[ti][li]["post"]["rows"][0][0] += 1
    bad[ti][li].pop("live", None)
    bad[ti][li].pop("fresh", None)
    res, rep = td.validate(bad)
    hit = {(v["tid"], v["l"]) for v in rep["verdicts"] if v["clause"] == "xml"}
    good &= expect("corrupted post-state is rejected at that event", (ti + 1, li + 1) in hit, f"trace {ti + 1} event {li + 1}: verdicts {sorted(hit)[:3]}")
    # drop an event (a 'removed hook'): the following event no longer follows from the model state
    cand = [(ti, li) for ti, tr in enumerate(traces) for li in range(1, len(tr) - 1)
            if tr[li]["kind"] == "table" and tr[li]["post"] != tr[li - 1]["post"] and tr[li + 1]["op"]["op"] not in ("optimize_width", "csv")]
    ti, li = rng.choice(cand)
    bad = copy.deepcopy(traces)
    nxt = bad[ti][li + 1]
    del bad[ti][li]
    res, rep = td.validate(bad)
    # TLC resynchronises on the observation after each event, so only operations whose result depends on the
    # skipped step are rejected; count over several drops
    rejected = 0
    for _ in range(12):
        ti, li = rng.choice(cand)
        b2 = copy.deepcopy(traces)
        del b2[ti][li]
        _res, rep2 = td.validate(b2)
        if any(v["tid"] == ti + 1 and v["l"] == li + 1 for v in rep2["verdicts"]):
            rejected += 1
    good &= expect("dropping an event makes the next one unexplainable", rejected >= 6, f"{rejected}/12 drops rejected (the rest were followed by an operation that overwrites the skipped effect)")
    del nxt
    # ---- paragraphs (ParaTrace)
    recs = [pl.record("Paragraph", ["a  b", "\tc "]), pl.record("Span", [" x"]), pl.record("Header", ["t\n", "  u"])]
    res, rep = pl.validate(copy.deepcopy(recs))
    good &= expect("ParaTrace accepts recorded paragraphs", rep is not None and not rep["verdicts"])
    bad = copy.deepcopy(recs)
    for n in bad[0]["nodes"]:
        if n["k"] == "s":
            n["c"] += 1          # one more space in a text:s than the code wrote
            break
    res, rep = pl.validate(bad)
    good &= expect("a corrupted text:s count is rejected (decode + normal form)", {v["clause"] for v in rep["verdicts"] if v["l"] == 1} >= {"decode-of-xml", "not-normal-form"})
    # ---- packages (PackageTrace)
    traces = pd.generate(12, 5, 8)
    res, rep = pd.validate(copy.deepcopy(traces))
    good &= expect("PackageTrace accepts 12 recorded document histories", rep is not None and not rep["verdicts"])
    cand = [(ti, li) for ti, tr in enumerate(traces) for li, ev in enumerate(tr) if ev["op"] == "save" and ev.get("saved") and "content.xml" in ev["saved"]]
    if cand:
        ti, li = rng.choice(cand)
        bad = copy.deepcopy(traces)
        bad[ti][li]["saved"]["content.xml"] = {"s": 9999, "l": 9998}
        res, rep = pd.validate(bad)
        got = {v["clause"] for v in rep["verdicts"] if v["tid"] == ti + 1 and v["l"] == li + 1}
        good &= expect("a saved part differing from the belief is rejected", bool(got & {"C03:saved-content-differs", "C11:pretty-or-packaging-changed-content"}), str(sorted(got)))
        bad = copy.deepcopy(traces)
        bad[ti][li]["smf"] = bad[ti][li]["smf"] + [bad[ti][li]["smf"][-1]]
        res, rep = pd.validate(bad)
        got = {v["clause"] for v in rep["verdicts"] if v["tid"] == ti + 1 and v["l"] == li + 1}
        good &= expect("a duplicated manifest entry is rejected", "C04:duplicate-manifest-entry" in got, str(sorted(got)))
    # ---- vault calls (VaultTrace): a removed hook and a corrupted field
    from harness import vault_trace as vt

    events = vt.record_random_histories(25, 10, 3)
    res, rep = vt.validate(copy.deepcopy(events))
    good &= expect(f"VaultTrace accepts {len(events)} recorded vault calls, layout and map included",
                   rep is not None and not rep["verdicts"] and rep["layout_differs"] == 0 and rep["map_differs"] == 0)
    cand = [i for i, e in enumerate(events) if "exc" not in e and e["post"]]
    i = rng.choice(cand)
    bad = copy.deepcopy(events)
    bad[i]["post"][0][1] += 1            # one more repetition of the first run than the code left
    res, rep = vt.validate(bad)
    good &= expect("a corrupted run length is rejected at that call", any(v["l"] == i + 1 and v["clause"] == "expansion" for v in rep["verdicts"]))
    bad = copy.deepcopy(events)
    bad[i]["pos"] += 1                   # the position logged is not the one the code acted on
    res, rep = vt.validate(bad)
    good &= expect("a wrong logged position is rejected at that call", any(v["l"] == i + 1 for v in rep["verdicts"]))
    # ---- pretty printing (Pretty.tla replay): a document whose printed form lost a blank is rejected
    from harness import pretty_engine as pe

    res, entries = pe.dump(False)
    mism, stats = pe.replay(entries[:400])
    good &= expect("Pretty replay: the code prints 400 documents exactly as the model does", not mism and stats["spec_differs"] == 0)
    # ---- harvested calls of the repository's own tests (MarkupTrace relational clauses)
    from harness import markup_lib as ml

    rc, hev, _tail = ml.harvest_repo_text_tests(paths=("tests/test_span.py", "tests/test_bookmark.py"))
    res, rep = ml.validate([[e] for e in hev]) if hev else (None, None)
    good &= expect(f"MarkupTrace accepts {len(hev)} calls harvested from the repository's tests", rep is not None and not rep["verdicts"])
    bad = []
    for e in hev:
        e2 = copy.deepcopy(e)
        for t in e2["post"]:
            if t["k"] == "t" and len(t["s"]) > 1:
                t["s"] = t["s"][:-1]
                bad.append(e2)
                break
    if bad:
        res, rep = ml.validate([[e] for e in bad])
        good &= expect("every harvested call whose recorded text lost a character is rejected", len({v["tid"] for v in rep["verdicts"]}) == len(bad), f"({len(bad)} calls)")
    print("SELFTEST " + ("passed" if good else "FAILED"))
    return 0 if good else 1
