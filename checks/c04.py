"""C04 - every saved file is a valid ODF package whose manifest matches its content.

Same machinery as C04's sibling C03 (PackageMC.tla: ManifestCoherent;
PackageTrace.tla); the verdict clauses are the zip-layer rules (mimetype first,
stored, equal to the document type, no duplicate entry), the manifest rules
(each file listed exactly once, nothing absent listed, root media type) after
every save of every history."""
from harness.common import Run
from harness.pkg_engine import run_package_property


def main(tier: str) -> int:
    run = Run("C04", tier)
    run.coverage["rule"] = (
        "seeded random histories (open|new; edits of content/styles/meta through old or fresh DOM handles; set_part of existing XML/binary "
        "parts; add_file; del_part; save zip|folder|xml x pretty x path|BytesIO; reopen; clone) over the 4 templates and all sample documents; "
        "after each save the target is read with zipfile/os.walk + lxml C14N only and TLC compares it with the model's belief (last write "
        "wins). Distinct = (op, packaging, pretty, part, previous op, source kind)."
    )
    run.assumptions += [
        "XML parts compared as canonical XML (C14N) with the meta:generator stamp blanked; other parts byte for byte",
        "directory entries of the zip are exempt (LibreOffice writes unlisted empty directories)",
        "flat XML: well-formedness and presence of every part's root children only (cannot be re-opened)",
        "set_part is exercised on existing parts only (adding unlisted parts through this low-level call is outside the property)",
    ]
    run_package_property(run, tier, prefixes=("C04:",), harvest=True)
    return run.finish()
