"""C07 - table XML stays structurally valid and repeat-consistent; name rules.

Structural part: the C01 machinery with the verdict on the `struct`
observable (raw repeat attributes, rows hold only cells, columns before rows,
no row wider than the declared columns) and on the reported size.
Names part: spec/Names.tla enumerates all strings over an alphabet holding
every forbidden character; each is replayed into the three name setters."""
from harness.common import Run
from harness.table_engine import blind_struct_histories, run_table_property, signature
from harness.tlc import make_cfg, run_tlc

ALPHA_Q = {ord(c) for c in "a1_ '[*:/\\.é"}
ALPHA_T = ALPHA_Q | {ord(c) for c in "B]?\n0-"}


def names_part(run, tier):
    from odfdo import Element, NamedRange, Table

    alpha, maxlen = (ALPHA_Q, 3) if tier == "quick" else (ALPHA_T, 4)
    consts = {"Alphabet": alpha, "MaxLen": maxlen, "Dump": True}
    cfg = make_cfg(spec="Spec", constants=consts, invariants=["TableRuleAgrees", "RangeRuleAgrees", "Emit"])
    res = run_tlc("Names", cfg, workers=1, timeout=900)
    run.add_tlc("Names (rule vs transcription, all strings)", res, {"Alphabet": "".join(sorted(map(chr, alpha))), "MaxLen": maxlen})
    if not res.ok:
        run.violation(f"model|{res.violated}", {"kind": "model", "tlc": res.stdout[-2000:]})
        return
    recs = [p for p in res.printed if isinstance(p, dict) and "tableok" in p]
    if not recs:
        run.machinery("Names.tla printed nothing")
    for r in recs:
        name = "".join(map(chr, r["s"]))
        stripped = "".join(map(chr, r["stripped"]))
        run.count()
        run.klass("name", r["tableok"], r["rangeok"], min(len(name), 2))
        # Table(name)
        for how in ("ctor", "setter"):
            try:
                if how == "ctor":
                    t = Table(name)
                else:
                    t = Table("x")
                    t.name = name
                ok, got = True, t.name
                back = Element.from_tag(t.serialize()).name
            except (ValueError, TypeError):
                ok, got, back = False, None, None
            if ok != r["tableok"] or (ok and (got != stripped or back != stripped)):
                run.violation(f"name|table|{how}|{'accepts-forbidden' if ok else 'rejects-valid'}" if ok != r["tableok"] else f"name|table|{how}|stored-differs",
                              {"kind": "name", "name": name, "spec_accepts": r["tableok"], "code_accepts": ok, "stored": got, "reparsed": back})
        try:
            nr = NamedRange(name, "A1", "T")
            ok, got = True, nr.name
            back = Element.from_tag(nr.serialize()).name
        except (ValueError, TypeError):
            ok, got, back = False, None, None
        if name == "":
            continue  # NamedRange() with no name is the documented empty constructor
        if ok != r["rangeok"] or (ok and (got != stripped or back != stripped)):
            run.violation(f"name|range|{'accepts-forbidden' if ok else 'rejects-valid'}" if ok != r["rangeok"] else "name|range|stored-differs",
                          {"kind": "name", "name": name, "spec_accepts": r["rangeok"], "code_accepts": ok, "stored": got, "reparsed": back})
    run.validated(len(recs))
    run.sample({"binding": "A:name", "records": recs[:3] + recs[-2:]})


def main(tier: str) -> int:
    run = Run("C07", tier)
    run.coverage["rule"] = (
        "structural rules evaluated on the raw XML after every replayed transition / walk step / recorded event of the C01 machinery "
        "(distinct = op x position class); names: every string up to the length bound over an alphabet with each forbidden character, "
        "replayed into Table(name), Table.name= and NamedRange(name) (distinct = verdict pair x length class)"
    )
    run.assumptions += [
        "the rule office applications apply to names is the one the library documents (LibreOffice is not available offline); "
        "range names with a leading digit are not claimed either way",
    ]
    budgets = {"walks": (400, 8), "traces": (300, 12), "edge_sample": 4000} if tier == "quick" else None
    run_table_property(run, tier, verdict_kinds=("struct", "live:size", "fresh:size", "exc", "model"), budgets=budgets)
    # histories in which nothing is read back between operations except single cache-filling reads
    total, mism = blind_struct_histories(6000 if tier == "quick" else 80000, 14, seed=run.seed)
    run.count(total)
    run.validated(total)
    run.notes["blind_history_operations"] = total
    for m in mism:
        run.klass("blind", m["op"]["op"])
        run.violation(signature(m), m)
    names_part(run, tier)
    return run.finish()
