"""C01 - Table editing API behaves like a plain grid of cells under every history.

Spec: spec/Grid.tla (abstract grid), spec/GridMC.tla (bounded exhaustive
model + laws), spec/GridTrace.tla (trace validation).
Verdict observables: the independent XML expansion after each call and every
read of the live object, both against the state/answers computed by TLC."""
from harness.common import Run
from harness.table_engine import run_table_property
from harness.vault_engine import run_vault_part
from harness.vault_trace import run_vault_trace_part


def main(tier: str) -> int:
    run = Run("C01", tier)
    run.coverage["rule"] = (
        "A: every transition of the bounded GridMC model (all ops x all positions 0..len+1 x repeats) replayed on a real "
        "Table built in 3 run-length encodings, plus random walks through the dumped graph on one live object; "
        "B: seeded random histories (tables <= 6x7, repeats <= 4, styled empty cells) validated by TLC against Grid.tla. "
        "A case is distinct/non-trivial by (binding, operation, position class y<H|=H|>H, x<w|=w|>w, overlap, row-in-run, repeated arg)."
    )
    run.assumptions += [
        "cell values are opaque: small integers stand for arbitrary values (C06 covers the value codecs)",
        "negative coordinates and string coordinates are exercised by C19, not here",
        "TLC, the CommunityModules Json/IOUtils overrides and lxml are trusted",
    ]
    run_table_property(run, tier, verdict_kinds=("xml", "live", "exc", "model"))
    # implementation-shaped refinement (Vault.tla): run-length vaults of cells, rows, columns
    run_vault_part(run, tier, verdict_kinds=("xml", "live"))
    # ... and the other direction: every vault call of random histories and of the repository's own tests is a Vault.tla step
    run_vault_trace_part(run, tier)
    return run.finish()
