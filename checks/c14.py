"""C14 - anything is found again under the name it was given, whatever the name contains.

Spec: XPathLit.tla - the predicate value the library builds for a name is a
well-formed XPath 1.0 expression that evaluates to exactly that name (and a
different name never satisfies it), for every name over an alphabet of XPath-
and XML-significant characters.  TLC enumerates the names and prints the
expression; each name the respective setter accepts is stored in a real
document together with decoys and looked up through every entry point
(binding A)."""
import io
import random

from lxml import etree

from harness.common import Run
from harness.tlc import make_cfg, run_tlc

ALPHA = {97, 32, 34, 39, 38, 60, 91, 93, 233}  # a space " ' & < [ ] e-acute
EXTRA = ["x y", 'say "hi"', "it's", 'both \' and "', "a&b", "<tag>", "[1]", "été", "中文", "a=b", "a/b", '""', "'", '"', "\U0001F600", "a" * 40 + '"',
         "0", "1", "2024", "x' or '1'='1", "o'.clock", "a'.b'.c", "q''.r", "dot.ted", ".lead", "x.'y", "$A.$B", "end'", "no\u00a0break", "soft\u00adhyphen", "zero\u200bwidth", "pua\ue000x", "back\\slash", "caf\u00e9_\u00a0"]     # a name made of digits is a name, not a position; a name is never query syntax


STYLE_OF: dict = {}     # table style name -> the table it was given to


def entry_points():
    """name -> (store(doc, name) , lookup(doc, name) -> list of (element, its identifier))"""
    from odfdo import DrawPage, Frame, Paragraph, Section, Style, Table, VarDecl
    from odfdo.variable import UserFieldDecl

    def para(doc):
        p = Paragraph("some text here to mark")
        doc.body.append(p)
        return p

    eps = {}

    def table_store(doc, n):
        doc.body.append(Table(n))

    eps["get_table(name=)"] = (table_store, lambda doc, n: [doc.body.get_table(name=n)], lambda e: e.name)

    def style_store(doc, n):
        doc.insert_style(Style("paragraph", name=n))

    eps["get_style(paragraph, name)"] = (style_store, lambda doc, n: [doc.get_style("paragraph", n)], lambda e: e.name)
    eps["get_bookmark(name=)"] = (lambda doc, n: para(doc).set_bookmark(n, position=3), lambda doc, n: [doc.body.get_bookmark(name=n)], lambda e: e.name)
    eps["get_reference_mark(name=)"] = (lambda doc, n: para(doc).set_reference_mark(n, position=3), lambda doc, n: [doc.body.get_reference_mark(name=n)], lambda e: e.name)
    eps["get_section(name)"] = (lambda doc, n: doc.body.append(Section(name=n)), lambda doc, n: [s for s in doc.body.get_sections() if s.name == n][:1] + doc.body.get_elements('descendant::text:section')[:0], lambda e: e.name)
    eps["get_frame(name=)"] = (lambda doc, n: doc.body.append(Frame.text_frame("t", size=("1cm", "1cm"), name=n)), lambda doc, n: [doc.body.get_frame(name=n)], lambda e: e.name)
    eps["get_draw_page(name=)"] = (lambda doc, n: doc.body.append(DrawPage(f"id{abs(hash(n)) % 9999}", name=n)), lambda doc, n: [doc.body.get_draw_page(name=n)], lambda e: e.name)
    eps["get_variable_decl(name)"] = (lambda doc, n: doc.body.get_variable_decls().append(VarDecl(n, "float")), lambda doc, n: [doc.body.get_variable_decl(n)], lambda e: e.name)
    eps["get_user_field_decl(name)"] = (lambda doc, n: doc.body.get_user_field_decls().append(UserFieldDecl(n, 1)), lambda doc, n: [doc.body.get_user_field_decl(n)], lambda e: e.name)
    eps["get_note(note_id=)"] = (lambda doc, n: para(doc).insert_note(after="text", note_id=n, citation="1", body="b"), lambda doc, n: [doc.body.get_note(note_id=n)], lambda e: e.note_id)
    from odfdo import Annotation, Link
    from odfdo.variable import UserDefined, VarSet

    eps["get_bookmark_start(name=)"] = (lambda doc, n: para(doc).set_bookmark(n, position=(2, 6)), lambda doc, n: [doc.body.get_bookmark_start(name=n)], lambda e: e.name)
    eps["get_bookmark_end(name=)"] = (lambda doc, n: para(doc).set_bookmark(n, position=(2, 6)), lambda doc, n: [doc.body.get_bookmark_end(name=n)], lambda e: e.name)
    eps["get_reference_mark_start(name=)"] = (lambda doc, n: para(doc).set_reference_mark(n, position=(2, 6)), lambda doc, n: [doc.body.get_reference_mark_start(name=n)], lambda e: e.name)
    eps["get_reference_mark_end(name=)"] = (lambda doc, n: para(doc).set_reference_mark(n, position=(2, 6)), lambda doc, n: [doc.body.get_reference_mark_end(name=n)], lambda e: e.name)
    eps["get_annotation(name=)"] = (lambda doc, n: para(doc).insert_annotation(Annotation("remark", creator="c", name=n), after="text"),
                                    lambda doc, n: [doc.body.get_annotation(name=n)], lambda e: e.name)
    eps["get_link(name=)"] = (lambda doc, n: para(doc).append(Link("http://example.org/", name=n, text="l")), lambda doc, n: [doc.body.get_link(name=n)], lambda e: e.name)
    eps["get_variable_set(name)"] = (lambda doc, n: para(doc).append(VarSet(n, value=1)), lambda doc, n: [doc.body.get_variable_set(n)], lambda e: e.name)
    eps["get_user_defined(name)"] = (lambda doc, n: para(doc).append(UserDefined(n, value=1)), lambda doc, n: [doc.body.get_user_defined(n)], lambda e: e.name)
    # what lies between two marks of a name is found through the name as well
    def between(getter, reader, want):
        def lookup(doc, n):
            el = getter(doc, n)
            if el is None:
                return [None]
            got = reader(el)
            if got != want:
                raise ValueError(f"content between the marks: {got!r}, wanted {want!r}")
            return [el]
        return lookup

    ref_store = lambda doc, n: para(doc).set_reference_mark(n, position=(2, 6))  # noqa: E731
    eps["ReferenceMarkStart.referenced_text()"] = (ref_store, between(lambda d, n: d.body.get_reference_mark_start(name=n), lambda e: e.referenced_text(), "me t"), lambda e: e.name)
    eps["ReferenceMarkEnd.referenced_text()"] = (ref_store, between(lambda d, n: d.body.get_reference_mark_end(name=n), lambda e: e.referenced_text(), "me t"), lambda e: e.name)
    eps["ReferenceMarkStart.get_referenced()"] = (ref_store, between(lambda d, n: d.body.get_reference_mark_start(name=n), lambda e: str(e.get_referenced()).strip(), "me t"), lambda e: e.name)
    eps["Annotation.get_annotated()"] = (lambda doc, n: para(doc).insert_annotation(Annotation("remark", creator="c", name=n), position=(2, 6)),
                                         between(lambda d, n: d.body.get_annotation(name=n), lambda e: e.get_annotated(as_text=True).strip(), "me t"), lambda e: e.name)

    # several ranges in ONE paragraph, each made of a point mark whose end is set afterwards: the end of a name is the end
    # of that name, whatever else the paragraph holds
    def shared_range_store(doc, n):
        p = None
        for cand in doc.body.get_paragraphs():
            if cand.inner_text.startswith("shared paragraph"):
                p = cand
                break
        if p is None:
            p = Paragraph("shared paragraph holding every range of this document")
            doc.body.append(p)
        ref = p.set_reference_mark(n, position=7)
        p.set_reference_mark_end(ref, position=16)

    eps["set_reference_mark_end / get_reference_mark_end(name=)"] = (shared_range_store, between(lambda d, n: d.body.get_reference_mark_end(name=n),
                                                                   # (referenced_text joins the text nodes with blanks: other marks cut the text into pieces)
                                                                   lambda e: e.referenced_text().replace(" ", ""), "paragraph"), lambda e: e.name)

    def named_range_store(doc, n):
        t = doc.body.get_table(name="NR")
        if t is None:
            t = Table("NR", width=3, height=3)
            doc.body.append(t)
            t = doc.body.get_table(name="NR")
        t.set_named_range(n, "A1:B2")

    eps["get_named_range(name) [table]"] = (named_range_store, lambda doc, n: [doc.body.get_named_range(n)], lambda e: e.name)

    def styled_table_store(doc, n):
        k = len(STYLE_OF)
        sname = f"verif_ts{k}"
        doc.insert_style(Style("table", name=sname), automatic=True)
        doc.body.append(Table(n, style=sname))
        STYLE_OF[sname] = n.strip()

    eps["Document.get_table_style(table name)"] = (styled_table_store, lambda doc, n: [doc.get_table_style(n)], lambda e: STYLE_OF.get(e.name, "?"))
    eps["manifest.get_media_type(path)"] = (lambda doc, n: doc.manifest.add_full_path("Pictures/" + n, "image/x-" + str(abs(hash(n)) % 999)), None, None)
    return eps


def variants(name: str) -> list[str]:
    """decoy identifiers differing in one place"""
    out = {name + "x", "x" + name, name[:-1], name[1:], name.replace('"', "'"), name.replace("'", '"'), name + '"', name + "'", name.strip(), name + " "}
    return [v for v in out if v and v != name]


def check_name(run, name: str, eps) -> None:
    from odfdo import Document

    for label, (store, lookup, ident) in eps.items():
        doc = Document("text" if "draw_page" not in label and "table" not in label else ("presentation" if "draw_page" in label else "spreadsheet"))
        # decoys are stored BEFORE and after the identifier: a lookup that returns "the first one" must not pass by luck
        decoys = variants(name)
        early = []
        for d in decoys[: len(decoys) // 2]:
            try:
                store(doc, d)
                early.append(d)
            except Exception:  # noqa: BLE001, S112
                continue
        try:
            store(doc, name)
        except etree.XPathError as ex:
            run.violation(f"query-error-while-storing|{label}", {"kind": "exc", "name": name, "got": repr(ex)[:200]})
            continue
        except (ValueError, TypeError, etree.XMLSyntaxError, AttributeError):
            run.klass(label, "rejected-by-setter")
            continue      # identifier not accepted by this setter: outside the quantifier
        stored_ok = list(early)
        for d in decoys[len(decoys) // 2:]:
            try:
                store(doc, d)
                stored_ok.append(d)
            except Exception:  # noqa: BLE001, S112
                continue
        run.count()
        cls = ("dq" if '"' in name else "") + ("sq" if "'" in name else "") + ("amp" if "&" in name or "<" in name else "") + ("br" if "[" in name or "]" in name else "") or "plain"
        run.klass(label, cls)
        if lookup is None:  # manifest
            try:
                # the other operations on an entry use another lookup: change the type of a decoy, remove another decoy,
                # add the path again - the entry itself, the root entry and the remaining decoys must be what they were
                root_before = doc.manifest.get_media_type("/")
                for j, d in enumerate(stored_ok[:3]):
                    if j == 0:
                        doc.manifest.set_media_type("Pictures/" + d, "image/x-changed")
                    elif j == 1:
                        doc.manifest.del_full_path("Pictures/" + d)
                    else:
                        doc.manifest.add_full_path("Pictures/" + d, "image/x-" + str(abs(hash(d)) % 999))
                if doc.manifest.get_media_type("/") != root_before:
                    run.violation(f"wrong-object|{label}|root-entry-changed", {"kind": "wrong", "name": name, "decoys": stored_ok})
                if len(stored_ok) > 1 and doc.manifest.get_media_type("Pictures/" + stored_ok[1]) is not None:
                    run.violation(f"wrong-object|{label}|deleted-entry-still-there", {"kind": "wrong", "name": name, "decoy": stored_ok[1]})
                doc.manifest.set_media_type("Pictures/" + name, "image/x-" + str(abs(hash(name)) % 999))
                got = doc.manifest.get_media_type("Pictures/" + name)
                want = "image/x-" + str(abs(hash(name)) % 999)
                if got != want:
                    run.violation(f"wrong-object|{label}|{cls}", {"kind": "wrong", "name": name, "got": got, "want": want, "decoys": stored_ok})
                # after save + reload as well
                buf = io.BytesIO()
                doc.save(buf)
                buf.seek(0)
                if Document(buf).manifest.get_media_type("Pictures/" + name) != want:
                    run.violation(f"after-reload|{label}|{cls}", {"kind": "reload", "name": name})
            except Exception as ex:  # noqa: BLE001
                run.violation(f"query-error|{label}|{cls}", {"kind": "exc", "name": name, "got": repr(ex)[:200]})
            continue
        # the setter may normalise the identifier (Table strips white space): the stored identifier is what must be found again
        try:
            all_named = [e for e in doc.body.get_elements("descendant::*") + doc.styles.get_elements("//style:style")]
        except Exception:  # noqa: BLE001
            all_named = []
        for query in {name}:
            try:
                res = [e for e in lookup(doc, query) if e is not None]
            except Exception as ex:  # noqa: BLE001
                run.violation(f"query-error|{label}|{cls}", {"kind": "exc", "name": name, "got": repr(ex)[:200]})
                continue
            if not res:
                # accepted but normalised by the setter?  then the normalised identifier must be found
                try:
                    alt = [e for e in lookup(doc, name.strip()) if e is not None]
                except Exception:  # noqa: BLE001
                    alt = []
                if alt and ident(alt[0]) == name.strip() and "table" in label:
                    continue
                run.violation(f"not-found|{label}|{cls}", {"kind": "missing", "name": name, "decoys": stored_ok})
            elif ident(res[0]) != name and not ("table" in label and ident(res[0]) == name.strip()):
                run.violation(f"wrong-object|{label}|{cls}", {"kind": "wrong", "name": name, "got": ident(res[0]), "decoys": stored_ok})
        del all_named


def check_ranges_by_table(run, name: str) -> None:
    """named ranges looked up by the name of their table: exactly those of that table"""
    from odfdo import Document, Table

    doc = Document("spreadsheet")
    body = doc.body
    body.clear()
    names = []
    for n in [name] + variants(name):
        try:
            t = Table(n)
        except (ValueError, TypeError):
            continue
        if t.name in names:
            continue
        names.append(t.name)
        body.append(t)
    if not names or names[0] != name.strip():
        return
    for i, n in enumerate(names):
        body.get_table(i).set_named_range(f"range_{i}", (i, 0))
    run.count()
    run.klass("get_named_ranges(table_name=)", "decoys", len(names) > 3)
    try:
        got = sorted(r.name for r in body.get_table(0).get_named_ranges(table_name=names[0]))
    except Exception as ex:  # noqa: BLE001
        run.violation("query-error|get_named_ranges(table_name=)", {"kind": "exc", "name": name, "got": repr(ex)[:200]})
        return
    if got != ["range_0"]:
        run.violation("wrong-object|get_named_ranges(table_name=)", {"kind": "wrong", "name": names[0], "tables": names, "got": got})


def main(tier: str) -> int:
    run = Run("C14", tier)
    run.coverage["rule"] = (
        "every name up to the length bound over {a, space, \", ', &, <, [, ], e-acute} (TLC: the predicate literal is well formed and "
        "denotes the name) plus a list of longer mixed names; each is stored - with up to 10 one-edit decoy identifiers - through 11 "
        "setters and looked up through the corresponding entry point; the lookup must return the object with exactly that identifier and "
        "never raise. Distinct = (entry point, character classes in the name | rejected by the setter)."
    )
    run.assumptions += [
        "a setter that rejects the identifier (exception) puts it outside the quantifier; Table names are stripped by the setter (C07)",
        "lxml's XPath engine is trusted to evaluate the predicate; TLC checks the literal construction",
        "named ranges accept only letters, digits and _ (C07), so they have no significant characters to exercise here",
    ]
    maxlen = 2 if tier == "quick" else 3
    c = {"Alphabet": ALPHA, "MaxLen": maxlen, "Dump": True}
    cfg = make_cfg(spec="Spec", constants=c, invariants=["LiteralWellFormed", "LiteralDenotesName", "OnlyThatName", "Emit"])
    res = run_tlc("XPathLit", cfg, workers=1, timeout=1500)
    run.add_tlc("XPathLit exhaustive", res, {"Alphabet": "".join(sorted(map(chr, ALPHA))), "MaxLen": maxlen})
    if not res.ok:
        run.violation(f"model|{res.violated}", {"kind": "model", "tlc": res.stdout[-2000:]})
        return run.finish()
    recs = [p for p in res.printed if isinstance(p, dict) and "expr" in p]
    if not recs:
        run.machinery("XPathLit printed nothing")
    from odfdo.utils import make_xpath_query

    probe = etree.fromstring("<r/>")
    eps = entry_points()
    names = ["".join(map(chr, r["name"])) for r in recs]
    # the specification's expression, evaluated by a real XPath engine, is the name; and the code builds a predicate that selects it
    for r, name in zip(recs, names):
        expr = "".join(map(chr, r["expr"]))
        try:
            if probe.xpath(f"string({expr})") != name:
                run.machinery(f"spec expression {expr!r} does not evaluate to {name!r} in lxml")
        except etree.XPathError:
            run.machinery(f"spec expression {expr!r} is not valid XPath")
        try:
            q = make_xpath_query("descendant::x", text_name=name)
            el = etree.fromstring("<r><x/><x/></r>")
            el[1].set("{urn:oasis:names:tc:opendocument:xmlns:text:1.0}name", name)
            hit = el.xpath(q, namespaces={"text": "urn:oasis:names:tc:opendocument:xmlns:text:1.0"})
            if hit != [el[1]]:
                run.violation("predicate|selects-wrong-set", {"kind": "predicate", "name": name, "query": q})
        except Exception as ex:  # noqa: BLE001
            run.violation("predicate|query-error", {"kind": "exc", "name": name, "got": repr(ex)[:200]})
    rng = random.Random(run.seed)
    sel = names if tier == "thorough" else rng.sample(names, min(len(names), 60))
    for name in sel + EXTRA:
        check_name(run, name, eps)
        check_ranges_by_table(run, name)
    run.validated(len(sel) + len(EXTRA))
    run.sample({"binding": "A:name", "name": names[40], "spec_expression": "".join(map(chr, recs[40]["expr"]))})
    return run.finish()
