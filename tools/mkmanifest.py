#!/venv/bin/python
"""Regenerate MANIFEST.json from the table below (keeps it valid at all times)."""
import json
from pathlib import Path

ROOT = Path(__file__).resolve().parent.parent
PROPS = [json.loads(l)["id"] for l in (ROOT / "properties.jsonl").read_text().splitlines() if l.strip()]

TABLE_NOTE = (
    "Trusted: TLC 1.8 + CommunityModules Json/IOUtils, lxml (independent reader harness/tablelib.py:project_element), "
    "the transcription of the documented meaning of each operation into spec/Grid.tla (DESIGN Appendix A). Cell values are opaque small "
    "integers. Exhaustive only inside the stated constants; beyond them seeded random histories."
)

TEXT_NOTE = (
    "Trusted: TLC, lxml, the independent ODF white-space reader harness/odftext.py (element-aware reading of ODF 1.2 part 1 section 6.1.2)."
)
PKG_NOTE = (
    "Trusted: TLC, zipfile, os.walk, lxml C14N, the digest/identifier assignment in harness/pkg_driver.py and the white-space reader "
    "harness/odftext.py. The meta:generator stamp and zip directory entries are exempt. Flat XML: well-formedness and content inclusion only."
)

CHECKS = {
    "C01": dict(
        text="Abstract grid spec (Grid.tla) model-checked exhaustively by TLC for the locality/shift/size laws (GridMC.tla); every transition "
        "of a bounded instance is dumped by TLC and replayed on a real Table built in three run-length encodings, random walks through the dumped "
        "graph run on one live object, and seeded random histories of the real code are validated event by event by TLC (GridTrace.tla). "
        "Verdicts: independent XML expansion and every live read vs the state/answers TLC computes. Also: Vault.tla (implementation-shaped run-length "
        "vault refining Grid.tla) model-checked and bound both ways (walks on live Row/Table vaults; VaultTrace.tla validation of every real vault call of "
        "random histories and of the repository's own table tests run under an external tracing plugin), tables with header groups and outlines.",
        ref="DESIGN.md section 4 C01, section 10, Appendix A",
        technique="TLA+ abstract spec + TLC exhaustive model check; TLC transition dump replayed into the code (MBT); TLC trace validation of recorded histories",
        note=TABLE_NOTE,
    ),
    "C02": dict(
        text="Same Grid.tla specification; verdict is the three-way agreement live object = fresh parse of its XML = independent expansion = "
        "model after EVERY step of walks through the TLC-dumped graph and of recorded histories with cache-filling reads interleaved before each "
        "mutation, plus document save/reload at random steps, all validated by TLC (GridTrace.tla); Vault.tla: reads through the position map and "
        "the item cache are true in every reachable state (refuted by TLC when the cache reset is dropped), walks on live vaults with cache-filling reads.",
        ref="DESIGN.md section 4 C02, section 10",
        technique="TLC transition-graph walks on one live object + TLC trace validation, three-way read comparison",
        note=TABLE_NOTE,
    ),
    "C07": dict(
        text="Structural rules (repeat attributes absent or >= 2, rows hold only cells, columns before rows, no row wider than the declared "
        "columns, first row declares columns, size = sums of repeats) are invariants/action properties of GridMC.tla and are evaluated on the raw "
        "XML after every replayed transition, walk step and trace event; name rules are specified in Names.tla (documented rule vs transcription "
        "of the code's check agree on all strings), every enumerated string is replayed into the three name setters. Histories in which nothing is "
        "read back except single cache-filling reads keep the rules evaluated on the XML alone.",
        ref="DESIGN.md section 4 C07",
        technique="TLC invariants on dumped/recorded states + exhaustive string enumeration by TLC replayed into the code",
        note=TABLE_NOTE + " The rule 'office applications accept' is taken to be the rule the library documents.",
    ),
    "C08": dict(
        text="GetterTrace.tla specifies, for each of the 16 getters, the sequence of handles (coordinates + content) it must return from the "
        "abstract table state; recorded events carry what the real getter returned, the repeat attributes of the returned objects, whether "
        "the getter changed the table, and what happened to the table and to sibling objects when up to 6 returned objects were mutated. TLC "
        "gives each event a total verdict (addressed / expanded / detached / detached-cross / getter-changed-table).",
        ref="DESIGN.md section 4 C08",
        technique="TLC trace validation of recorded getter events against a TLA+ specification of each getter",
        note=TABLE_NOTE + " The 'no repeat count' clause is claimed for the expanding getters only.",
    ),
    "C17": dict(
        text="Transpose and rstrip are exact functions, optimize_width a relation (+ idempotence), CSV a value equality in Grid.tla; the "
        "algebraic laws are invariants checked exhaustively by TLC on GridMC.tla and Span.tla (set_span/del_span: inverse pair, covers exactly the "
        "area, refuses overlap, values kept unless merge, no orphan covered cell). Dumped transitions of both models are replayed on real tables in "
        "3 encodings; transformation-heavy random histories and odfdo-table-shrink runs are validated by TLC. Also: transpose(coord) as the operator TransposeArea with its involution law, cells holding text without a value type (never stripped).",
        ref="DESIGN.md section 4 C17",
        technique="TLC exhaustive law checking + transition replay (MBT) + TLC trace validation",
        note=TABLE_NOTE + " Involution is on the populated matrix; set_span on areas leaving the table is unspecified.",
    ),
    "C19": dict(
        text="Coord.tla: the coded base-26 conversions are checked by TLC against the short-lex successor characterisation for 0..20000 and the "
        "table is replayed both ways into the code; the named-range address writer/parser pair is specified and its round trip checked over all "
        "names up to the bound, each name replayed (write, serialise, parse, and code-parser on the spec-written ODF address, table rename). "
        "CoordTrace.tla: 9 read methods x up to 5 coordinate forms, every answer compared by TLC with the answer for the abstract area. Also: iter_values under every form, padded new table names, the flat= / style= / cell_type= / complete= keyword forms of the reads.",
        ref="DESIGN.md section 4 C19",
        technique="TLC-enumerated tables replayed into the code + TLC trace validation of reads under every coordinate form",
        note=TABLE_NOTE,
    ),
    "C03": dict(
        text="PackageMC.tla (implementation-shaped: lazily read parts, parsed-part cache, manifest as bytes/parsed) is checked exhaustively "
        "by TLC against the caller's belief (SaveFaithful, MemoryIsBelief); PackageTrace.tla validates recorded histories of real documents "
        "(templates, all samples; path/BytesIO/folder; DOM edits through old and fresh handles, set_part, add_file, del_part; zip/folder/flat "
        "saves; reopen; clone): after each save the target is read with zipfile/os.walk+lxml only and compared with the model's belief. Also: merge_styles_from with picture parts, the declared document type changed on the way (16 types x packagings), one BytesIO saved again and again, every sample exported to flat XML straight after opening.",
        ref="DESIGN.md section 4 C03",
        technique="TLC exhaustive check of the impl-shaped package design + TLC trace validation of recorded save/reopen histories",
        note=PKG_NOTE,
    ),
    "C04": dict(
        text="Same specifications as C03; verdict clauses are the zip-layer and manifest rules evaluated by TLC on the independent reading of "
        "every saved package of every history (mimetype first/stored/equal to type, no duplicate entry, manifest lists each file exactly once "
        "and nothing absent, root media type), including saves of the untouched twin after a clone.",
        ref="DESIGN.md section 4 C04",
        technique="TLC trace validation of recorded histories (zipfile infolist + independent manifest parse) + TLC model check (ManifestCoherent)",
        note=PKG_NOTE,
    ),
    "C10": dict(
        text="Two-object models: PackageTrace.tla (documents: equal at birth, untouched twin keeps its state also when saved), GridTrace.tla "
        "(tables cloned mid-history with warmed caches, both sides edited in a random interleaving, each against the Grid model and the other "
        "side required unchanged), TwinTrace.tla (elements, cells, rows, columns, frames, lists, XML parts, containers from BytesIO / zip path "
        "with unread parts / folder); PackageMC.tla CloneEqualAtBirth on the lazy-parts design.",
        ref="DESIGN.md section 4 C10",
        technique="TLC trace validation against two-object (twin) specifications + TLC model check of the clone design",
        note=PKG_NOTE + " The Python heap is not modelled; sharing is detected through its effect on the twin.",
    ),
    "C11": dict(
        text="PackageMC.tla SaveNeutral (Save changes no answer of the live document); PackageTrace.tla clauses C11: pretty/folder saves write "
        "the same loose form (structure, attributes, ODF-collapsed readable text of every paragraph/heading) as the belief, plain saves the "
        "same strict form, and the document's own view re-read after every save equals the belief; sources include generated documents with "
        "every inline kind next to every other. Pretty.tla: the indentation function transcribed on labelled trees, TLC proves that what a consumer reads "
        "is kept for every document of a bounded family (and refutes the library's earlier rule); each document is replayed through "
        "XmlPart.serialize(pretty=True) and read back independently.",
        ref="DESIGN.md section 4 C11",
        technique="TLC model check (SaveNeutral, Pretty.tla ReadableKept) + TLC-enumerated documents replayed into the code + TLC trace validation with strict/loose content identifiers",
        note=PKG_NOTE + " loose form = harness/odftext.py (ODF 1.2 part 1 section 6.1.2).",
    ),
    "C15": dict(
        text="PackageTrace.tla op 'pure': about 1400 introspected + curated read-only entry points called twice in random order on templates, "
        "samples and generated documents; TLC requires every part identifier (content, styles, meta, settings, manifest) unchanged and the "
        "second answer equal to the first. Also: every curated call on several objects of each kind, ranged reads from every start position, a generated spreadsheet parsed from bytes (outlines, non-canonical named ranges), questions about what lies at / beyond the end of a table, the reads made inside package histories (a deleted part asked for stays absent).",
        ref="DESIGN.md section 4 C15",
        technique="TLC trace validation of read-only calls (stuttering requirement on the package model)",
        note=PKG_NOTE + " Read-only classification is by name/docstring, kept in harness/pure_driver.py.",
    ),
    "C05": dict(
        text="Para.tla transcribes append_plain_text and states the library reader (Decode) and the independent ODF 1.2 part 1 6.1.2 "
        "white-space processing (Collapse); ParaMC.tla checks RoundTrip and NormalForm for every string over {letters, space, tab, LF} up to the "
        "bound and every split into appends; every dumped transition is replayed on real Paragraph/Header/Span objects; ParaTrace.tla "
        "evaluates Decode and Collapse on the node sequence read from the XML of objects built from random rich strings.",
        ref="DESIGN.md section 4 C05", technique="TLA+ transcription + TLC exhaustive enumeration of strings x splits, replay (MBT), TLC trace validation",
        note=TEXT_NOTE),
    "C06": dict(
        text="Typed.tla: type lattice (bool is an int, datetime is a date); the isinstance dispatch chains are extracted from the working tree "
        "by AST and checked by TLC (MostSpecificFirst); TypedTrace.tla validates records of values stored in 7 carriers: value type, attribute, "
        "ODF lexical space (recognisers of Codec.tla), read-back kind, equality direct / after re-parse / after save+reopen. Also: the fields of meta.xml as independent typed fields (MetaStore.tla: read your writes, independence, refused values), property setters, values equal across types, UserDefined(from_document=).",
        ref="DESIGN.md section 4 C06", technique="TLC check of source-extracted dispatch chains + TLC trace validation of stored values",
        note="Trusted: TLC, Python's Decimal/repr for exact comparison of floats (TLA+ has no floating point), the AST extraction in checks/c06.py."),
    "C09": dict(
        text="Markup.tla: token model of paragraph content; transcription of the _by_regex_offset decorator, Element._insert, strip_tags, delete; "
        "MarkupMC.tla checks TextPreserved, WrapsDesignated, NoMatchNoChange, RemovalKeepsOutside for all small layouts x offsets x lengths x "
        "literal patterns x sequences of insertions; every dumped transition and random histories on API-built paragraphs are validated by "
        "TLC (MarkupTrace.tla) against the operators and the clauses. Also: (start, end) and content= ranges for bookmarks, reference marks and annotations, notes, marks after an annotation, the documented pair deletions, paragraphs attached to a document; the markup calls of the repository's own tests validated through an external tracing plugin; negative occurrence numbers / positions, content=<element>, removals called on an inline element itself.",
        ref="DESIGN.md section 4 C09", technique="TLA+ transcription + TLC exhaustive model check, transitions replayed as traces, TLC trace validation",
        note=TEXT_NOTE + " Regex engine trusted (literal patterns); offsets count character data in document order."),
    "C12": dict(
        text="Registry.tla on RegistryData.tla generated at run time from the working tree (every register call by AST, own tags, PropDef "
        "properties): tag clashes, own-tag dispatch, duplicated properties, generic property codec; RegistryTrace.tla validates one record per "
        "instance of every registered class built with generated constructor arguments: same class after re-parse and through 6 access paths, "
        "equal infoset (C14N), properties equal after re-parse, constructor arguments visible, property set/get. Also: integer, string and element-valued constructor arguments readable through the property of their name, mixed content, the same instance read inside a document next to another one, four-sided argument groups, no answer kept from before an assignment, arguments whose values are an enumeration of the standard.",
        ref="DESIGN.md section 4 C12", technique="TLC check on source-extracted registry data + TLC trace validation of generated instances",
        note="Trusted: TLC, lxml C14N, the type-directed argument generator (harness/registry_lib.py); arguments a constructor rejects are dropped."),
    "C13": dict(
        text="Styles.tla: dispatch table of insert_style, lookup order of get_style, automatic naming, merge; StylesMC.tla checks RightContainer, "
        "Unique, FoundAgain, AutoNamesFresh, MergeIsUnionOtherWins over sequences on two documents; dumped transitions replayed on real documents "
        "holding exactly the model population, random sequences on templates and samples (real populations, bursts of automatic styles, "
        "set_table_displayed, add_page_break_style, lookups after save+reload) validated by TLC (StylesTrace.tla). Also: the name given through insert_style(name=), homonyms across the containers of styles.xml, and every insert_style call of the repository's own tests.",
        ref="DESIGN.md section 4 C13", technique="TLA+ spec + TLC exhaustive model check, replay (MBT), TLC trace validation",
        note="Trusted: TLC, the independent XPath/lxml walk of the six containers (harness/styles_lib.py). Names assumed unique per family across containers."),
    "C14": dict(
        text="XPathLit.tla: the predicate literal the library builds for a name is a well-formed XPath 1.0 expression denoting exactly that name "
        "(all names over {a, space, double quote, apostrophe, &, <, [, ], e-acute} up to the bound); TLC's expression is cross-checked with "
        "lxml's XPath engine; each name is stored with one-edit decoys through 11 setters and looked up through every entry point. Also: decoys stored before and after the target, start/end marks, annotations, links, variable sets, user-defined fields, table names through the Document-level helpers (digit-only names), the manifest's other operations.",
        ref="DESIGN.md section 4 C14", technique="TLC exhaustive enumeration of names + replay into every lookup entry point (MBT)",
        note="Trusted: TLC, lxml XPath. A setter rejecting an identifier puts it outside the quantifier."),
    "C16": dict(
        text="ReplaceTrace.tla (on Markup.tla): count = matches inside individual text slots, replace rewrites exactly those spans, markup "
        "skeleton unchanged, formatted replace keeps the text and is in ODF white-space normal form (Para.tla Collapse), search positions index "
        "the element's own text; per-slot match spans come from Python's re (TLC recomputes them for literal patterns).",
        ref="DESIGN.md section 4 C16", technique="TLC trace validation of recorded count/replace/search events against a TLA+ slot model",
        note=TEXT_NOTE + " The regex engine is trusted on both sides."),
    "C18": dict(
        text="Codec.tla: encoders as the library writes, parsers as the xsd/ODF lexical grammars over integers and code points; CodecMC.tla checks "
        "the inverse and lexical-form laws over boundary lattices and computes the grammar's verdict for every one-character mutant of each "
        "duration encoding; the tables are replayed into the real codecs both ways; CodecTrace.tla validates random values. Also: the whole CSS keyword table against an independent copy, Unit(value, unit).",
        ref="DESIGN.md section 4 C18", technique="TLC lattice enumeration + mutant tables replayed into the code + TLC trace validation",
        note="Trusted: TLC (32-bit integers: durations up to 20000 days), Python datetime arithmetic for field extraction."),
    "C20": dict(
        text="Toc.tla: the counter machine of _header_numbering equals an independent declarative numbering for every level sequence up to the "
        "bound and every outline level; the listing rule; TLC prints the expected entries, each replayed on a real document (TOC first/middle/"
        "last, fill once/twice/after an edit, index-body read with lxml) and against the odfdo-headers tool. Also: headings inside sections, list items and table cells, parsed headings with Unicode blanks, the tool's complete output on the live document and after a pretty save.",
        ref="DESIGN.md section 4 C20", technique="TLC exhaustive enumeration of heading sequences + replay on real documents (MBT)",
        note="Trusted: TLC, harness/odftext.py. Outline 0 means no limit; a skipped level counts as an implicit ancestor."),
}

NOT_YET = "check under construction in this session (no claim yet)"


def main():
    checks = []
    for pid, c in CHECKS.items():
        checks.append(
            {
                "property_id": pid,
                "quick_cmd": f"./check {pid} --tier quick",
                "thorough_cmd": f"./check {pid} --tier thorough",
                "evidence_file": f"/verif/evidence/{pid}.json",
                "replay_cmd_template": f"./check {pid} --replay {{path}}",
                "engine": "tlc",
                "level_claimed": {"category": "model_checking", "text": c["text"], "design_ref": c["ref"]},
                "level_note": c["note"],
                "technique": c["technique"],
            }
        )
    m = {
        "version": 1,
        "setup_cmd": "/venv/bin/python /verif/harness/setup.py",
        "hooks": {
            "guard": "ODFDO_VERIF",
            "enable": "no source hooks are needed: checks import odfdo from /repo/src (working tree) and observe it from outside through "
            "projection functions; ODFDO_VERIF=1 only enables the external pytest tracing plugin (harness/pytest_trace_plugin.py)",
            "baseline_off_cmd": "cd /repo && /venv/bin/python -m pytest -ra -q -p no:cacheprovider --timeout=900 --continue-on-collection-errors",
            "source_commits": [],
            "add_only": True,
        },
        "engines": [
            {
                "name": "tlc",
                "path": "/verif/spec",
                "serves_properties": sorted(CHECKS),
                "kind_free_text": "explicit TLA+ specifications checked with TLC 1.8; bound to the code by (A) TLC-generated transitions/tables "
                "replayed into odfdo and (B) traces recorded from odfdo validated by TLC",
            }
        ],
        "checks": checks,
        "notes": "Model-based verification with explicit TLA+ specifications; see DESIGN.md. ./check <id> exits 0 held / 1 violation / 2 machinery failure.",
        "not_applicable": [{"property_id": p, "reason": NOT_YET} for p in PROPS if p not in CHECKS],
    }
    (ROOT / "MANIFEST.json").write_text(json.dumps(m, indent=1) + "\n")
    print("checks:", sorted(CHECKS), "not yet:", [p for p in PROPS if p not in CHECKS])


if __name__ == "__main__":
    main()
