#!/venv/bin/python
"""Confirm a seeded defect produced by a sub-agent and file it under /verif/seeded/<id>/.

usage: seed_eval.py <property> <name> <dir-with-patch.diff-demo.py-notes.txt> [--checks C01,C02]

Steps (all in a scratch worktree outside /repo and /verif, removed afterwards):
 1. the patch applies to /repo's HEAD,
 2. the repository's test suite still passes with it,
 3. demo.py exits 1 with the patch and 0 without,
 4. the registered quick checks are run against /repo with the patch applied
    (git -C /repo apply ... ; undo with git -C /repo checkout -- .).
"""
import json
import os
import shutil
import subprocess
import sys
import time
from pathlib import Path

ROOT = Path(__file__).resolve().parent.parent


def sh(cmd, **kw):
    return subprocess.run(cmd, shell=True, capture_output=True, text=True, **kw)


def main():
    prop, name, src = sys.argv[1], sys.argv[2], Path(sys.argv[3]).resolve()
    checks = [prop]
    if "--checks" in sys.argv:
        checks = sys.argv[sys.argv.index("--checks") + 1].split(",")
    out = ROOT / "seeded" / f"{prop}-{name}"
    wt = Path(f"/tmp/evalwt_{prop}_{name}")
    meta = {"property": prop, "name": name, "ran": []}
    reuse = "--reuse" in sys.argv and (out / "meta.json").exists()
    if reuse:
        old = json.loads((out / "meta.json").read_text())
        for k in ("patch_applies", "demo_with_patch_exit", "test_suite_with_patch", "demo_without_patch_exit"):
            meta[k] = old[k]
        meta["ran"] = [x for x in old.get("ran", []) if not x.startswith("./check")]
    sh(f"git -C /repo worktree remove --force {wt}")
    r = sh(f"git -C /repo worktree add -q {wt} HEAD")
    assert r.returncode == 0, r.stderr
    try:
        if reuse:
            raise StopIteration
        env = dict(os.environ, PYTHONPATH=f"{wt}/src")
        r = sh(f"git -C {wt} apply {src}/patch.diff")
        meta["patch_applies"] = r.returncode == 0
        meta["ran"].append(f"git apply patch.diff -> rc {r.returncode}")
        if r.returncode != 0:
            print("PATCH DOES NOT APPLY", r.stderr)
            return 1
        r = sh(f"PYTHONPATH={wt}/src /venv/bin/python {src}/demo.py", cwd=wt)
        meta["demo_with_patch_exit"] = r.returncode
        t0 = time.time()
        r = sh("/venv/bin/python -m pytest -q -p no:cacheprovider -n 6 2>&1 | tail -3", cwd=wt, env=env)
        meta["test_suite_with_patch"] = r.stdout.strip().splitlines()[-1] if r.stdout.strip() else "?"
        meta["ran"].append(f"pytest -n 6 with patch: {meta['test_suite_with_patch']} ({time.time()-t0:.0f}s)")
        sh(f"git -C {wt} checkout -- .")
        r = sh(f"PYTHONPATH={wt}/src /venv/bin/python {src}/demo.py", cwd=wt)
        meta["demo_without_patch_exit"] = r.returncode
        if os.environ.get("SEED_EVAL_SIDE"):
            # several evaluations at once: the checks are run against the scratch worktree itself (ODFDO_REPO / ODFDO_SRC),
            # their evidence and replay files going to a scratch directory - /repo is not touched
            side = True
            sh(f"git -C {wt} apply {src}/patch.diff")
            meta["checks"] = {}
            senv = dict(os.environ, ODFDO_REPO=str(wt), ODFDO_SRC=f"{wt}/src", VERIF_EVIDENCE_DIR=f"/tmp/evalside_ev/{prop}_{name}",
                        VERIF_REPLAY_DIR=f"/tmp/evalside_rep/{prop}_{name}")
            for c in checks:
                t0 = time.time()
                r = sh(f"./check {c} --tier quick", cwd=ROOT, env=senv)
                sigs = [l.strip() for l in r.stdout.splitlines() if l.strip().startswith("signature:")][:5]
                meta["checks"][c] = {"exit": r.returncode, "wall_s": round(time.time() - t0, 1), "signatures": sigs}
                meta["ran"].append(f"./check {c} --tier quick (patch applied to a scratch worktree of /repo's HEAD, ODFDO_REPO) -> exit {r.returncode}")
    except StopIteration:
        pass
    finally:
        sh(f"git -C /repo worktree remove --force {wt}")
        shutil.rmtree(wt, ignore_errors=True)
    ok = meta["demo_with_patch_exit"] == 1 and meta["demo_without_patch_exit"] == 0 and " passed" in meta["test_suite_with_patch"] and "failed" not in meta["test_suite_with_patch"]
    meta["confirmed"] = ok
    if os.environ.get("SEED_EVAL_SIDE") and "checks" in meta:
        out.mkdir(parents=True, exist_ok=True)
        shutil.copy(src / "patch.diff", out / "patch.diff")
        shutil.copy(src / "demo.py", out / "demo.py")
        notes = (src / "notes.txt").read_text() if (src / "notes.txt").exists() else ""
        meta["needs_to_manifest"] = notes[:3000]
        (out / "meta.json").write_text(json.dumps(meta, indent=1) + "\n")
        print(json.dumps({k: meta[k] for k in ("confirmed", "test_suite_with_patch", "demo_with_patch_exit", "demo_without_patch_exit", "checks")}, indent=1))
        return 0
    # our checks against /repo with the patch applied
    st = sh("git -C /repo status --porcelain").stdout.strip()
    assert not st, "/repo not clean: " + st
    meta["checks"] = {}
    r = sh(f"git -C /repo apply {src}/patch.diff")
    assert r.returncode == 0, "patch does not apply to /repo: " + r.stderr
    try:
        for c in checks:
            t0 = time.time()
            r = sh(f"./check {c} --tier quick", cwd=ROOT)
            sigs = [l.strip() for l in r.stdout.splitlines() if l.strip().startswith("signature:")][:5]
            meta["checks"][c] = {"exit": r.returncode, "wall_s": round(time.time() - t0, 1), "signatures": sigs}
            meta["ran"].append(f"./check {c} --tier quick (patch applied to /repo) -> exit {r.returncode}")
    finally:
        sh("git -C /repo checkout -- .")
    out.mkdir(parents=True, exist_ok=True)
    if src.resolve() != out.resolve():
        shutil.copy(src / "patch.diff", out / "patch.diff")
        shutil.copy(src / "demo.py", out / "demo.py")
    notes = (src / "notes.txt").read_text() if (src / "notes.txt").exists() else ""
    meta["needs_to_manifest"] = notes[:3000] if notes else (old.get("needs_to_manifest", "") if reuse else "")
    (out / "meta.json").write_text(json.dumps(meta, indent=1) + "\n")
    print(json.dumps({k: meta[k] for k in ("confirmed", "test_suite_with_patch", "demo_with_patch_exit", "demo_without_patch_exit", "checks")}, indent=1))
    return 0


if __name__ == "__main__":
    sys.exit(main())
